"""C07 on a real popen gateway: a raising channel callback.

ChannelFactory._local_receive passes the error *text* (a str) to _local_close, which
expects a RemoteError: with the channel alive its own waitclose() raises
`TypeError: exceptions must derive from BaseException`; with the channel object already
dropped the receiver thread dies of AttributeError ('str' has no 'warn') and the whole
gateway is gone.  Expected on a correct tree: exit 0."""
import os, sys, time
sys.path.insert(0, os.environ.get("EXECNET_SRC", "/repo/src"))
import execnet
assert execnet.__file__.startswith(os.environ.get("EXECNET_SRC", "/repo/src"))
bad = []
gw = execnet.makegateway("popen")
def cb(x):
    raise ValueError("boom")
SRC = "channel.receive()\nchannel.send(1)\ntry: channel.waitclose(5)\nexcept Exception: pass"
ch = gw.remote_exec(SRC)
ch.setcallback(cb)
ch.send("go")  # the item arrives after the callback is registered: it runs in the receiver thread
try:
    ch.waitclose(5)
    bad.append("alive: waitclose returned normally")
except ch.RemoteError:
    pass
except BaseException as e:
    bad.append(f"alive: own waitclose raised {type(e).__name__}: {e}")
ch2 = gw.remote_exec(SRC)
ch2.setcallback(cb)
ch2.send("go")
del ch2
time.sleep(1.0)
if not gw.hasreceiver():
    bad.append("dropped: gateway is not-receiving after a callback raised on a dropped channel")
else:
    c3 = gw.remote_exec("channel.send(42)")
    assert c3.receive(5) == 42
print("\n".join(bad) or "ok")
try:
    gw.exit()
except Exception:
    pass
sys.exit(1 if bad else 0)
