"""C16 on real processes: a socket gateway whose server side runs the gevent exec model.

GeventExecModel.socket does `import gevent; return gevent.socket` -- the submodule is not imported by
`import gevent`, so the first use raises AttributeError("module 'gevent' has no attribute 'socket'")
and `socket//installvia=<gevent gateway>` cannot be created at all.  Expected on a correct tree: exit 0."""
import os, sys
SRC = os.environ.get("EXECNET_SRC", "/repo/src")
sys.path.insert(0, SRC)
import execnet
assert execnet.__file__.startswith(SRC)
try:
    import gevent  # noqa: F401
except ImportError:
    print("gevent is not installed: nothing to show"); sys.exit(0)
g = execnet.Group()
g.makegateway("popen//id=m//execmodel=gevent")
ok = False
try:
    gw = g.makegateway("socket//installvia=m")
    r = gw.remote_exec("channel.send(channel.receive() + 1)")
    r.send(41)
    ok = r.receive(10) == 42
    print("socket gateway on a gevent server: echo ok =", ok)
except BaseException as e:
    print("socket gateway on a gevent server failed: %s: %s" % (type(e).__name__, str(e).strip().splitlines()[-1]))
try:
    g.terminate(2)
except BaseException:
    pass
print("ok" if ok else "FAILED")
os._exit(0 if ok else 1)
