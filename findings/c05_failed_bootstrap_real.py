"""C05 on real processes: a makegateway() that fails AFTER its process was started leaves it behind.

Group.makegateway() only protects _register(); when bootstrap itself fails the IO object (and the
child behind it) is dropped on the floor.  Shown with a child that is not a Python interpreter:
a script that ignores its arguments and runs `cat` echoes the bootstrap line back, the handshake byte is wrong, makegateway raises
-- and `cat` keeps running with its pipes open.  (The virtual-world variant: the initiator cannot start
the receiver thread of the new gateway.)  Expected on a correct tree: exit 0."""
import os, sys, time
SRC = os.environ.get("EXECNET_SRC", "/repo/src")
sys.path.insert(0, SRC)
import execnet
assert execnet.__file__.startswith(SRC)
me = os.getpid()

def children():
    out = []
    for p in os.listdir("/proc"):
        if p.isdigit():
            try:
                st = open("/proc/%s/stat" % p).read().rsplit(")", 1)[1].split()
                if int(st[1]) == me and st[0] != "Z":
                    out.append(int(p))
            except (OSError, IndexError, ValueError):
                pass
    return out

import tempfile, stat
d = tempfile.mkdtemp()
fake = os.path.join(d, "notpython")
with open(fake, "w") as f:
    f.write("#!/bin/sh\nexec cat\n")
os.chmod(fake, 0o755)
g = execnet.Group()
try:
    g.makegateway("popen//python=%s" % fake)
    print("makegateway unexpectedly succeeded")
    raised = None
except BaseException as e:
    raised = e
    print("makegateway raised %s: %s" % (type(e).__name__, str(e)[:60]))
time.sleep(0.5)
left = children()
print("len(group) = %d, child processes still running: %s" % (len(g), left))
for p in left:
    os.kill(p, 9)
ok = raised is not None and not left and len(g) == 0
print("ok" if ok else "FAILED")
sys.exit(0 if ok else 1)
