"""C07 on a real gateway: the remote body raises an exception whose text cannot be encoded as UTF-8.

WorkerGateway._executetask builds the traceback text and calls channel.close(errortext); serialising
a text with a lone surrogate (e.g. an os.fsdecode()d file name in an OSError message) raises DumpError
inside the error handler: no CHANNEL_CLOSE_ERROR is sent, the channel is never closed and the peer's
receive()/waitclose() wait for ever.  The same happens for a failing callback.  Expected on a correct
tree: exit 0 (a RemoteError arrives)."""
import os, sys
SRC = os.environ.get("EXECNET_SRC", "/repo/src")
sys.path.insert(0, SRC)
import execnet
assert execnet.__file__.startswith(SRC)
gw = execnet.makegateway("popen")
bad = 0
for label, src in (("body", "channel.send(1)\nraise ValueError('bad name: \\udcff.txt')"),
                   ("callback", "def cb(x):\n    raise KeyError('\\ud800')\nchannel.setcallback(cb)\nchannel.gateway._keep = channel\nimport time; time.sleep(5)")):
    ch = gw.remote_exec(src)
    if label == "callback":
        ch.send("x")
    try:
        while True:
            ch.receive(3)
    except ch.RemoteError as e:
        res = "RemoteError: " + str(e).strip().splitlines()[-1][:60].encode("ascii", "backslashreplace").decode()
    except EOFError:
        res = "EOFError"
    except ch.TimeoutError:
        res = "TimeoutError (the channel was never closed)"
    print("%s raising an un-encodable text: peer got %s" % (label, res))
    if not res.startswith("RemoteError"):
        bad += 1
gw.exit()
print("ok" if not bad else "FAILED")
os._exit(1 if bad else 0)
