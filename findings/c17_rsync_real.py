"""C17 on a real popen gateway.
(1) a mode-only change of a file to 0o600 arrives as 0o700 (serve_rsync chmods
    files with `mode | 0o700` in its mode-only branch);
(2) with the caller's cwd inside the source tree a relative symlink is re-based
    against the cwd instead of the link's own directory.
Expected on a correct tree: exit 0."""
import os, sys, stat, tempfile, shutil
sys.path.insert(0, os.environ.get("EXECNET_SRC", "/repo/src"))
import execnet
assert execnet.__file__.startswith(os.environ.get("EXECNET_SRC", "/repo/src"))
bad = []
tmp = os.path.realpath(tempfile.mkdtemp(prefix="c17real-"))
try:
    src, dst = os.path.join(tmp, "src"), os.path.join(tmp, "dst")
    os.makedirs(os.path.join(src, "sub"))
    open(os.path.join(src, "f"), "w").write("x")
    open(os.path.join(src, "sub", "t"), "w").write("t")
    open(os.path.join(src, "t"), "w").write("top")
    os.symlink("t", os.path.join(src, "sub", "rel"))     # means sub/t
    gw = execnet.makegateway("popen")
    def sync(cwd):
        old = os.getcwd(); os.chdir(cwd)
        try:
            r = execnet.RSync(src, verbose=False); r.add_target(gw, dst); r.send()
        finally:
            os.chdir(old)
    sync(tmp)
    os.chmod(os.path.join(src, "f"), 0o600)
    sync(tmp)
    m = stat.S_IMODE(os.stat(os.path.join(dst, "f")).st_mode)
    if m != 0o600:
        bad.append("mode-only change to 0o600 arrived as %o" % m)
    shutil.rmtree(dst)
    sync(src)   # cwd = source root
    link = os.path.join(dst, "sub", "rel")
    resolved = os.path.normpath(os.path.join(os.path.dirname(link), os.readlink(link)))
    if resolved != os.path.join(dst, "sub", "t"):
        bad.append("with cwd = source root the link sub/rel -> 't' became -> %r (denotes %s)" % (os.readlink(link), os.path.relpath(resolved, dst)))
    gw.exit()
finally:
    shutil.rmtree(tmp, ignore_errors=True)
print("\n".join(bad) or "ok")
sys.exit(1 if bad else 0)
