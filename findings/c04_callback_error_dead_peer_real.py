"""C04 on a real gateway: a channel callback fails on an item and the peer is already dead.

ChannelFactory._local_receive() reports a failing callback to the peer with CHANNEL_CLOSE_ERROR.  If
the peer died meanwhile the send raises OSError *out of the receiver loop*: the receiver thread ends
through its generic exception branch, the connection loss is not recorded, and waitclose() on another
open channel RETURNS NORMALLY instead of raising EOFError.  Expected on a correct tree: exit 0."""
import os, sys, time
SRC = os.environ.get("EXECNET_SRC", "/repo/src")
sys.path.insert(0, SRC)
import execnet
assert execnet.__file__.startswith(SRC)
gw = execnet.makegateway("popen")
other = gw.remote_exec("channel.receive()")
ch = gw.remote_exec("import os, time\nchannel.send('item')\ntime.sleep(0.2)\nos._exit(0)")
def cb(x):
    time.sleep(0.6)          # user code takes its time; the worker is gone when it fails
    raise ValueError("callback fails")
ch.setcallback(cb)
try:
    other.waitclose(10)
    res = "returned normally"
except EOFError:
    res = "EOFError"
except BaseException as e:
    res = type(e).__name__
print("waitclose() on another channel after the worker died: %s (recorded connection error: %r)" % (res, getattr(gw, "_error", None)))
ok = res == "EOFError"
print("ok" if ok else "FAILED")
os._exit(0 if ok else 1)
