"""C09 on the real WorkerPool: spawn() registers the task as running BEFORE it starts the thread.

When the interpreter refuses to start a thread (here, really: Python >= 3.12 refuses new threads
once finalization has begun; elsewhere: thread limits, memory) spawn() raises -- the task was not
accepted and never runs -- but its Reply stays in WorkerPool._running for ever: active_count() is 1
and waitall() can never return True again ("waitall ... do return once no accepted task is
unfinished").  Runs the probe inside an atexit callback of a child interpreter.
Expected on a correct tree: exit 0."""
import os, subprocess, sys
SRC = os.environ.get("EXECNET_SRC", "/repo/src")
code = r'''
import atexit, sys
sys.path.insert(0, %r)
import execnet
from execnet.gateway_base import WorkerPool, get_execmodel
pool = WorkerPool(get_execmodel("thread"))
def probe():
    try:
        pool.spawn(print, "task ran")
        print("spawn accepted the task (threads can still be started here): nothing to show")
        print("RESULT ok")
        return
    except RuntimeError as e:
        print("spawn raised RuntimeError:", e)
    r = pool.waitall(timeout=1.0)
    print("active_count() =", pool.active_count(), " waitall(1.0) ->", r)
    print("RESULT", "ok" if r and pool.active_count() == 0 else "FAILED")
atexit.register(probe)
''' % SRC
p = subprocess.run([sys.executable, "-c", code], capture_output=True, text=True, timeout=60)
print(p.stdout.strip())
sys.exit(0 if "RESULT ok" in p.stdout else 1)
