"""C08 on real sockets: two threads sending large items on one socket gateway.

SocketIO.write() is a bare sock.sendall(): once a frame exceeds the socket buffer the
kernel takes it in pieces, and nothing stops a second thread from writing its frame in
between (BaseGateway._send has no lock).  The peer then decodes garbage and the
gateway dies.  popen gateways are protected by BufferedWriter's internal lock.
Expected on a correct tree: exit 0."""
import os, sys, threading
sys.path.insert(0, os.environ.get("EXECNET_SRC", "/repo/src"))
import execnet
assert execnet.__file__.startswith(os.environ.get("EXECNET_SRC", "/repo/src"))
g = execnet.Group()
g.makegateway("popen//id=master")
gw = g.makegateway("socket//installvia=master//id=s")
N, SIZE = 6, 4 * 1024 * 1024
ch = gw.remote_exec("""
n = 0
for x in channel:
    n += len(x)
    channel.send(n)
""")
errors = []
def sender(tag):
    try:
        for i in range(N):
            ch.send(tag * SIZE)
    except Exception as e:
        errors.append(f"{type(e).__name__}: {e}")
ts = [threading.Thread(target=sender, args=(t,)) for t in (b"a", b"b")]
[t.start() for t in ts]
[t.join(60) for t in ts]
got = 0
try:
    for i in range(2 * N):
        got = ch.receive(30)
except Exception as e:
    errors.append(f"receive: {type(e).__name__}: {str(e)[:100]}")
ok = not errors and got == 2 * N * SIZE
print("ok" if ok else f"stream corrupted: bytes acknowledged={got} errors={errors[:3]} gateway={gw!r}")
try:
    g.terminate(2)
except Exception:
    pass
sys.exit(0 if ok else 1)
