"""C10 on a real popen gateway: the requested endmarker is lost when the connection
dies while setcallback() is draining the queue.

ChannelFactory._finished_receiving() runs in the receiver thread WITHOUT the gateway's
_receivelock, so it can close the channel between setcallback()'s `self._items = None`
and its registration of the callback: _local_close finds neither a queue nor a
registered callback, and setcallback then sees the channel closed and does not register
-- nobody ever delivers the endmarker.  The window is widened by giving this one
channel a queue object whose non-blocking get() is slow when empty (no execnet code is
changed).  Expected on a correct tree: exit 0."""
import os, sys, time, threading, queue
sys.path.insert(0, os.environ.get("EXECNET_SRC", "/repo/src"))
import execnet
assert execnet.__file__.startswith(os.environ.get("EXECNET_SRC", "/repo/src"))
gw = execnet.makegateway("popen")
ch = gw.remote_exec("channel.send(1); channel.gateway.execmodel.Event().wait()")
time.sleep(0.3)  # item 1 is queued

class SlowQueue(queue.Queue):
    def get(self, block=True, timeout=None):
        try:
            return super().get(block=False)
        except queue.Empty:
            if not block:
                time.sleep(0.6)  # widen the window inside setcallback
                raise
            return super().get(block, timeout)

sq = SlowQueue()
sq.put(ch._items.get())
ch._items = sq
threading.Timer(0.2, gw._io.popen.kill).start()  # the worker dies while setcallback drains
calls = []
ch.setcallback(calls.append, endmarker="END")
time.sleep(1.0)
print("callback calls:", calls)
ok = calls == [1, "END"]
print("ok" if ok else "endmarker was never delivered although the connection is gone")
sys.exit(0 if ok else 1)
