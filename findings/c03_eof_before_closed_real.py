"""C03 on a real popen gateway: a receiver can see EOFError before the channel is
marked closed.  ChannelFactory._local_close() enqueues ENDMARKER first and only then
sets _closed / _receiveclosed, so in that window isclosed() is False, send() succeeds
and waitclose(0) raises TimeoutError although the peer already observed the close.
The window is widened by wrapping the put() of this channel's own queue object (no
execnet code is changed).  Expected on a correct tree: exit 0."""
import os, sys, time
sys.path.insert(0, os.environ.get("EXECNET_SRC", "/repo/src"))
import execnet
from execnet import gateway_base
assert execnet.__file__.startswith(os.environ.get("EXECNET_SRC", "/repo/src"))
gw = execnet.makegateway("popen")
ch = gw.remote_exec("channel.send(1)")
q = ch._items
orig_put = q.put
first = []
def slow_put(item, *a, **k):
    orig_put(item, *a, **k)
    if item is gateway_base.ENDMARKER and not first:
        first.append(1)  # only the receiver thread's put, not the re-put of receive()
        time.sleep(0.5)
q.put = slow_put
assert ch.receive() == 1
bad = []
try:
    ch.receive()
except EOFError:
    if not ch.isclosed():
        bad.append("isclosed() is False after receive() raised EOFError")
    try:
        ch.waitclose(0)
    except ch.TimeoutError:
        bad.append("waitclose(0) timed out after receive() raised EOFError")
    try:
        ch.send(2)
        bad.append("send() succeeded after receive() raised EOFError")
    except OSError:
        pass
print("\n".join(bad) or "ok: channel state settled when EOFError is seen")
gw.exit()
sys.exit(1 if bad else 0)
