"""C09 on real processes: remote_exec directly followed by Group.terminate.

The worker's receiver thread hands the task to the primary (main) thread's
mailbox and right afterwards reads GATEWAY_TERMINATE; trigger_shutdown()
overwrites the mailbox with None before the main thread picked the task up.
The accepted task never runs, _running never empties, and the worker walks the
5 s waitall -> SIGINT ladder.  Expected on a correct tree: < 1 s and the file exists.
"""
import os, sys, tempfile, time
sys.path.insert(0, os.environ.get("EXECNET_SRC", "/repo/src"))
import execnet
assert execnet.__file__.startswith(os.environ.get("EXECNET_SRC", "/repo/src")), execnet.__file__
bad = 0
for i in range(3):
    marker = tempfile.mktemp()
    g = execnet.Group()
    gw = g.makegateway("popen")
    gw.remote_exec("open(%r, 'w').write('ran')" % marker)
    t = time.time()
    g.terminate(10)
    dt = time.time() - t
    ran = os.path.exists(marker)
    if ran:
        os.unlink(marker)
    print(f"run {i}: terminate took {dt:.2f}s, body ran: {ran}")
    if dt > 2 or not ran:
        bad += 1
sys.exit(1 if bad else 0)
