"""C04 on real processes: a proxied (via) worker is killed while the initiator keeps sending to it.

The forwarder's data callback fails (`sub_io.write` -> BrokenPipeError), execnet reports that as a
CHANNEL_CLOSE_ERROR on the proxy channel, ProxyIO.read() on the initiator raises RemoteError instead
of EOFError, the proxied gateway's receiver thread ends through its generic `except Exception`
branch and never records the connection loss: waitclose() on a channel that was open at that moment
RETURNS NORMALLY instead of raising EOFError.  Expected on a correct tree: exit 0."""
import os, signal, sys, threading, time
SRC = os.environ.get("EXECNET_SRC", "/repo/src")
sys.path.insert(0, SRC)
import execnet
assert execnet.__file__.startswith(SRC)
bad = 0
for attempt in range(5):
    g = execnet.Group()
    m = g.makegateway("popen//id=m")
    # widen the race inside the forwarder (no execnet code is changed on disk): its reading loop
    # notices the EOF of the dead sub a little later than its writing callback notices EPIPE
    m.remote_exec("""
import time
import execnet.gateway_base as gb
orig = gb.Message.from_io
def slow(io):
    try:
        return orig(io)
    except EOFError:
        time.sleep(0.5)
        raise
gb.Message.from_io = staticmethod(slow)
""").waitclose(10)
    gw = g.makegateway("popen//via=m//id=sub")
    ch = gw.remote_exec("import os\nchannel.send(os.getpid())\nfor x in channel:\n    pass")
    pid = ch.receive(10)
    stop = []
    def sender():
        try:
            while not stop:
                ch.send(b"x" * 1000)
        except OSError:
            pass
    t = threading.Thread(target=sender, daemon=True); t.start()
    time.sleep(0.2)
    os.kill(pid, signal.SIGKILL)
    try:
        ch.waitclose(10)
        res = "returned normally"
    except EOFError:
        res = "EOFError"
    except BaseException as e:
        res = type(e).__name__
    stop.append(1); t.join(5)
    print("attempt %d: waitclose() on the channel of the killed proxied worker: %s (gateway error recorded: %r)" % (attempt, res, getattr(gw, "_error", None)))
    if res != "EOFError":
        bad += 1
    try:
        g.terminate(2)
    except BaseException:
        pass
print("ok" if not bad else "FAILED (%d/5)" % bad)
os._exit(1 if bad else 0)
