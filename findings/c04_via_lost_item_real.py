"""C04 on real processes, second half of the via story: an item the dying proxied worker had
completely written is lost for the survivor when the survivor is sending at that moment.

The forwarder's write towards the dead sub fails; execnet turned that into CHANNEL_CLOSE_ERROR on the
proxy channel, which overtakes the sub's last frames that the forwarder's reading loop has not
forwarded yet.  The race is widened inside the forwarder (its reading loop is slowed down; no execnet
code is changed on disk).  Expected on a correct tree: exit 0 (the item arrives, then EOFError)."""
import os, signal, sys, threading, time
SRC = os.environ.get("EXECNET_SRC", "/repo/src")
sys.path.insert(0, SRC)
import execnet
assert execnet.__file__.startswith(SRC)
bad = 0
for attempt in range(3):
    g = execnet.Group()
    m = g.makegateway("popen//id=m")
    m.remote_exec("""
import time
import execnet.gateway_base as gb
orig = gb.Message.from_io
def slow(io):
    msg = orig(io)
    if type(io).__name__ == "Popen2IOMaster":   # the forwarder's reading loop only: slow to pass frames on
        time.sleep(1.0)
    return msg
gb.Message.from_io = staticmethod(slow)
""").waitclose(10)
    gw = g.makegateway("popen//via=m//id=sub")
    ch = gw.remote_exec("import os, time\nchannel.receive()\nchannel.send('last words')\ntime.sleep(0.1)\nos.kill(os.getpid(), 9)")
    stop = []
    def sender():
        try:
            while not stop:
                ch.send(b"x" * 100)
                time.sleep(0.01)
        except OSError:
            pass
    t = threading.Thread(target=sender, daemon=True); t.start()
    got = []
    try:
        while True:
            got.append(ch.receive(10))
    except EOFError:
        end = "EOFError"
    except BaseException as e:
        end = type(e).__name__
    stop.append(1); t.join(5)
    print("attempt %d: received %r then %s" % (attempt, got, end))
    if got != ["last words"] or end != "EOFError":
        bad += 1
    try:
        g.terminate(2)
    except BaseException:
        pass
print("ok" if not bad else "FAILED (%d/3)" % bad)
os._exit(1 if bad else 0)
