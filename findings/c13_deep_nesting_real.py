"""C13 on the real loads(): deeply nested tuples as set members / dict keys.

The unserializer builds values iteratively, but hashing a nested tuple (to put it into a set or use it
as a dict key) and comparing two equal ones recurses in C:
 * ~2000 levels, two equal tuples in one set: RecursionError (an untyped exception) from loads();
 * 200000 levels (1 MB of input): the interpreter dies with SIGSEGV inside hash().
Each probe runs in a child process.  Expected on a correct tree: exit 0 (typed errors only)."""
import os, subprocess, sys
SRC = os.environ.get("EXECNET_SRC", "/repo/src")
code = r'''
import sys, struct
sys.path.insert(0, %r)
import execnet
i4 = lambda n: struct.pack("!i", n)
n = int(sys.argv[1])
deep = b"@" + i4(0) + (b"@" + i4(1)) * n
data = b"\x02" + deep * 2 + b"O" + i4(2) + b"Q"
try:
    execnet.loads(data); print("value")
except execnet.DataFormatError as e:
    print("DataFormatError")
except BaseException as e:
    print(type(e).__name__)
''' % SRC
bad = 0
for n in (100, 2000, 200000):
    p = subprocess.run([sys.executable, "-c", code, str(n)], capture_output=True, text=True, timeout=120)
    out = p.stdout.strip() or "(no output)"
    print("set of two equal tuples nested %d deep: %s, exit status %d" % (n, out, p.returncode))
    if p.returncode != 0 or out not in ("value", "DataFormatError"):
        bad += 1
print("ok" if not bad else "FAILED")
sys.exit(1 if bad else 0)
