"""C05 on real gateways: the via-gateway (master) of a proxied member is dead or SIGSTOPped.

terminate(timeout) has to reach the proxied member through its master:
 (a) master dead   -> ProxyIO.wait()/kill() cannot send: terminate() raises OSError;
 (b) master stopped -> after the timeout safe_terminate calls ProxyIO.kill(), which waits for an
     acknowledgement that never comes: terminate() never returns (the local master process is never
     killed either).
Expected on a correct tree: exit 0 (terminate returns within a small multiple of the timeout, the group
is empty, the local master process is gone)."""
import os, signal, sys, threading, time
SRC = os.environ.get("EXECNET_SRC", "/repo/src")
sys.path.insert(0, SRC)
import execnet
assert execnet.__file__.startswith(SRC)
bad = []

def alive(p):
    try:
        return open("/proc/%d/stat" % p).read().split(")")[-1].split()[0] != "Z"
    except OSError:
        return False

for name, sig in (("dead", signal.SIGKILL), ("stopped", signal.SIGSTOP)):
    g = execnet.Group()
    m = g.makegateway("popen//id=m")
    sub = g.makegateway("popen//via=m//id=sub")
    mpid = m.remote_exec("import os; channel.send(os.getpid())").receive(10)
    spid = sub.remote_exec("import os; channel.send(os.getpid())").receive(10)
    os.kill(mpid, sig)
    time.sleep(0.5)
    res = {}
    def run():
        t = time.time()
        try:
            g.terminate(1.0)
            res["r"] = "returned"
        except BaseException as e:
            res["r"] = "raised %s: %s" % (type(e).__name__, e)
        res["dt"] = time.time() - t
    th = threading.Thread(target=run, daemon=True); th.start(); th.join(15)
    r = res.get("r", "STILL RUNNING after 15 s")
    time.sleep(0.3)
    print("(master %s) terminate(1.0): %s%s; len(group)=%d; master process %s" % (name, r, " in %.1fs" % res["dt"] if "dt" in res else "", len(g), "alive" if alive(mpid) else "gone"))
    if r != "returned" or len(g) or alive(mpid):
        bad.append(name)
    for p in (mpid, spid):
        try:
            os.kill(p, signal.SIGKILL)
        except OSError:
            pass
print("ok" if not bad else "FAILED: " + ",".join(bad))
os._exit(1 if bad else 0)
