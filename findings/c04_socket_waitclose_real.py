"""C04/C16 on real processes: after the peer of a socket gateway is SIGKILLed,
waitclose() on an open channel returns None instead of raising EOFError (popen and via
gateways raise EOFError).  SocketIO.read raises a bare EOFError and Message.from_io
concatenates e.args[0] -> IndexError, so the receiver thread never records the EOF.
Expected on a correct tree: exit 0."""
import os, signal, sys, time
sys.path.insert(0, os.environ.get("EXECNET_SRC", "/repo/src"))
import execnet
assert execnet.__file__.startswith(os.environ.get("EXECNET_SRC", "/repo/src"))
bad = []
for kind in ("popen", "socket"):
    g = execnet.Group()
    if kind == "popen":
        gw = g.makegateway("popen//id=w")
        pid = gw.remote_exec("import os; channel.send(os.getpid())").receive()
    else:
        m = g.makegateway("popen//id=master")
        pid = m.remote_exec("import os; channel.send(os.getpid())").receive()
        gw = g.makegateway("socket//installvia=master//id=w")
    ch = gw.remote_exec("channel.receive()")
    os.kill(pid, signal.SIGKILL)
    try:
        ch.waitclose(10)
        bad.append(f"{kind}: waitclose() returned normally after the peer was killed")
    except EOFError:
        pass
    except BaseException as e:
        bad.append(f"{kind}: waitclose raised {type(e).__name__}")
    try:
        g.terminate(1)
    except Exception:
        pass
print("\n".join(bad) or "ok")
sys.exit(1 if bad else 0)
