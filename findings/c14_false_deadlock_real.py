"""C14 on a real main_thread_only worker: after a remote_exec body raised, the next
remote_exec -- issued after the first channel closed -- is refused with the
"concurrent remote_exec would cause deadlock" RemoteError (after a 1 s wait), because
executetask() sets _executetask_complete only on its success path.
Expected on a correct tree: exit 0."""
import os, sys, time
sys.path.insert(0, os.environ.get("EXECNET_SRC", "/repo/src"))
import execnet
assert execnet.__file__.startswith(os.environ.get("EXECNET_SRC", "/repo/src"))
bad = []
for first in ("raise ValueError('x')", "raise SystemExit(2)"):
    gw = execnet.makegateway("popen//execmodel=main_thread_only")
    ch = gw.remote_exec(first)
    try:
        ch.waitclose(10)
    except ch.RemoteError:
        pass
    t = time.time()
    ch2 = gw.remote_exec("channel.send(42)")
    try:
        v = ch2.receive(10)
        assert v == 42
    except ch2.RemoteError as e:
        bad.append(f"after `{first}`: next remote_exec refused after {time.time()-t:.1f}s: {str(e).strip()[-80:]}")
    gw.exit()
print("\n".join(bad) or "ok")
sys.exit(1 if bad else 0)
