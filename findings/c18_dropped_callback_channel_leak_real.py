"""C18 / C10 on a real popen gateway: a channel whose only receiver is a callback and whose
handle was dropped is never forgotten when the remote side ends *after* the drop.

Dropping the handle sends CHANNEL_LAST_MESSAGE; the peer then is in "sendonly" state
(_receiveclosed set), and Channel.close() - also the automatic one at the end of
remote_exec - sends no CHANNEL_CLOSE "because the other side closed already".  The
initiator never learns that the conversation is over: the requested endmarker is not
delivered and ChannelFactory._callbacks keeps one entry per conversation.
Expected on a correct tree: exit 0."""
import os, sys, time
sys.path.insert(0, os.environ.get("EXECNET_SRC", "/repo/src"))
import execnet
assert execnet.__file__.startswith(os.environ.get("EXECNET_SRC", "/repo/src"))
gw = execnet.makegateway("popen")
calls = []
N = 5
for i in range(N):
    ch = gw.remote_exec("import time; time.sleep(0.3); channel.send(1)")
    ch.setcallback(calls.append, endmarker="END")
    del ch
time.sleep(1.5)
left = len(gw._channelfactory._callbacks)
ok = calls.count("END") == N and left == 0
print("ok" if ok else f"endmarkers delivered: {calls.count('END')}/{N}; callback entries never forgotten: {left}")
gw.exit()
sys.exit(0 if ok else 1)
