"""C07 / C04 / C11 on real popen gateways: a callback that raises on its ENDMARKER is not confined.

ChannelFactory._no_longer_opened() calls callback(endmarker) unprotected in the receiver thread:
 (a) C07 -- when the peer closes the channel, the exception ends the receiver thread: the whole
     gateway goes down because one channel's callback failed;
 (b) C04 -- when the connection is lost, _finished_receiving() stops at the failing callback: channels
     that come later are never closed and their blocked receivers hang forever;
 (c) C11 -- in a worker the receiver thread dies before _terminate_execution(): the worker survives
     its initiator forever (no SIGINT, no os._exit).
Expected on a correct tree: exit 0."""
import os, subprocess, sys, time, threading
SRC = os.environ.get("EXECNET_SRC", "/repo/src")
sys.path.insert(0, SRC)
import execnet
assert execnet.__file__.startswith(SRC)
bad = []

def boom(x):
    raise ValueError("callback fails on its endmarker")

# (a) peer closes the channel
gw = execnet.makegateway("popen")
ch = gw.remote_exec("pass")
ch.setcallback(boom, endmarker=None)
time.sleep(0.5)
try:
    r = gw.remote_exec("channel.send(42)").receive(5)
except Exception as e:
    r = repr(e)
print("(a) gateway after a failing endmarker callback: hasreceiver=%s, fresh remote_exec -> %r" % (gw.hasreceiver(), r))
if r != 42:
    bad.append("a")
try:
    gw.exit()
except Exception:
    pass

# (b) connection loss with a blocked receiver on a LATER channel
gw = execnet.makegateway("popen")
c1 = gw.remote_exec("channel.gateway.execmodel.Event().wait()")
c1.setcallback(boom, endmarker=None)
c2 = gw.remote_exec("channel.gateway.execmodel.Event().wait()")
res = []
def rx():
    try:
        res.append(c2.receive(8))
    except EOFError:
        res.append("EOFError")
    except Exception as e:
        res.append(type(e).__name__)
t = threading.Thread(target=rx, daemon=True); t.start()
time.sleep(0.3)
gw._io.popen.kill()
t.join(10)
print("(b) receiver blocked on a later channel when the worker was killed got:", res)
if res != ["EOFError"]:
    bad.append("b")

# (c) worker whose callback fails on the endmarker, initiator SIGKILLed
code = r'''
import sys, time
sys.path.insert(0, %r)
import execnet
gw = execnet.makegateway("popen")
ch = gw.remote_exec("""
import os
def cb(x):
    raise ValueError("fails on endmarker")
c = channel.gateway.newchannel()
c.setcallback(cb, endmarker=None)
channel.gateway._keep = c
channel.send(os.getpid())
""")
print(ch.receive(10), flush=True)
time.sleep(60)
''' % SRC
p = subprocess.Popen([sys.executable, "-c", code], stdout=subprocess.PIPE)
wpid = int(p.stdout.readline())
time.sleep(0.5)
p.kill(); p.wait()
def alive(pid):
    try:
        return open("/proc/%d/stat" % pid).read().split(")")[-1].split()[0] != "Z"
    except OSError:
        return False
t0 = time.time()
while alive(wpid) and time.time() - t0 < 17:
    time.sleep(0.25)
print("(c) worker %d after its initiator was killed: %s after %.1fs" % (wpid, "STILL ALIVE" if alive(wpid) else "gone", time.time() - t0))
if alive(wpid):
    bad.append("c")
    os.kill(wpid, 9)
print("ok" if not bad else "FAILED: " + ",".join(bad))
sys.exit(1 if bad else 0)
