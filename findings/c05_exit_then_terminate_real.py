"""C05 on real gateways: a member that was exit()ed before Group.terminate() is called.

(a) a `via` sub gateway exit()ed earlier: terminate() computes the set of via-gateways from the
    current members only, exits the master in the same round in which it still has to wait for the
    sub *through* the master, and raises OSError("cannot send (already closed?)");
(b) the only member was exit()ed earlier and its worker ignores interrupts: the group is empty, so the
    `while self:` loop never runs, the exited gateway is never joined / killed and terminate(timeout)
    returns at once with the child process still running.
Expected on a correct tree: exit 0."""
import os, sys, time
SRC = os.environ.get("EXECNET_SRC", "/repo/src")
sys.path.insert(0, SRC)
import execnet
assert execnet.__file__.startswith(SRC)
bad = []

def alive(p):
    try:
        return open("/proc/%d/stat" % p).read().split(")")[-1].split()[0] != "Z"
    except OSError:
        return False

# (a)
g = execnet.Group()
g.makegateway("popen//id=master")
gw = g.makegateway("popen//via=master//id=sub")
gw.remote_exec("pass").waitclose()
gw.exit()
try:
    g.terminate(2.0)
    print("(a) terminate after sub.exit(): ok, len(group)=%d" % len(g))
    if len(g):
        bad.append("a")
except BaseException as e:
    print("(a) terminate after sub.exit() raised %s: %s" % (type(e).__name__, e))
    bad.append("a")
    try:
        g.terminate(1.0)
    except BaseException:
        pass

# (b)
g = execnet.Group()
gw = g.makegateway("popen//id=only")
ch = gw.remote_exec("import os, time\nchannel.send(os.getpid())\nwhile True:\n    try:\n        time.sleep(0.2)\n    except KeyboardInterrupt:\n        pass")
pid = ch.receive(10)
gw.exit()
t = time.time()
g.terminate(1.0)
dt = time.time() - t
time.sleep(0.3)
left = alive(pid)
print("(b) terminate(1.0) after the only member had exit()ed took %.2fs; its worker process %d is %s" % (dt, pid, "STILL RUNNING" if left else "gone"))
if left:
    bad.append("b")
    os.kill(pid, 9)
print("ok" if not bad else "FAILED: " + ",".join(bad))
sys.exit(1 if bad else 0)
