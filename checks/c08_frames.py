"""C08 -- message frames survive any chunking and never interleave on the wire."""

from __future__ import annotations

import itertools
import struct

from engine import evidence
from engine import harness
from engine.parallel import pmap

from .chanprog import ChanProg
from .chanprog import default_channel as ch

PID = "C08"

CODES = list(range(8))
IDS = [0, 1, -1, 2**31 - 1, -(2**31)]


def ref_frame(code, cid, payload):
    return struct.pack("!bii", code, cid, len(payload)) + payload


class ScriptedReader:
    """returns the stream in the given chunk sizes: a read never crosses a chunk boundary"""

    def __init__(self, data: bytes, chunks) -> None:
        self.data = data
        self.pos = 0
        self.bounds = []
        p = 0
        for c in chunks:
            p += c
            self.bounds.append(p)
        self.nreads = 0

    def _take(self, n: int) -> bytes:
        self.nreads += 1
        if self.pos >= len(self.data):
            return b""
        nxt = next((b for b in self.bounds if b > self.pos), len(self.data))
        k = min(n, nxt - self.pos)
        out = self.data[self.pos : self.pos + k]
        self.pos += k
        return out

    read = _take
    recv = _take

    def recv_into(self, buffer, nbytes=0, flags=0):
        mv = memoryview(buffer)
        data = self._take(min(nbytes or len(mv), len(mv)))
        mv[: len(data)] = data
        return len(data)

    def readinto(self, buffer):
        mv = memoryview(buffer)
        data = self._take(len(mv))
        mv[: len(data)] = data
        return len(data)

    # socket-ish / file-ish extras
    def setsockopt(self, *a):
        return None

    def flush(self):
        return None

    def close(self):
        return None


class Sink:
    """file-like / socket-like sink; `.raw` is the unbuffered stream under it, whose writes may be short"""

    def __init__(self) -> None:
        self.buf = bytearray()
        self.calls = 0
        sink = self

        class Raw:
            def write(self, data):
                data = bytes(data)[:65536]
                sink.calls += 1
                sink.buf += data
                return len(data)

            def flush(self):
                return None

        self.raw = Raw()

    def write(self, data):
        self.calls += 1
        self.buf += data
        return len(data)

    def sendall(self, data):
        self.calls += 1
        self.buf += data

    def send(self, data):
        self.calls += 1
        self.buf += data
        return len(data)

    def flush(self):
        return None

    def setsockopt(self, *a):
        return None


class StubGW:
    id = "stub"

    def newchannel(self):
        return StubChan([])


class StubChan:
    gateway = StubGW()
    id = 1

    def __init__(self, items) -> None:
        self.items = list(items)
        self.sent = []

    def send(self, x):
        self.sent.append(x)

    def receive(self, timeout=None):
        if self.items:
            return self.items.pop(0)
        raise EOFError()

    def isclosed(self):
        return False

    def close(self, error=None):
        return None

    def makefile(self, mode="w", proxyclose=False):
        import execnet

        return execnet.Channel.makefile(self, mode, proxyclose)


def make_reader(kind, data, chunks):
    from execnet import gateway_base as gb
    from execnet import gateway_io
    from execnet import gateway_socket

    em = gb.get_execmodel("thread")
    if kind == "popen":
        return gb.Popen2IO(Sink(), ScriptedReader(data, chunks), em)
    if kind == "socket":
        return gateway_socket.SocketIO(ScriptedReader(data, chunks), em)
    # proxy: the stream arrives as channel items
    items = []
    p = 0
    for c in chunks:
        items.append(data[p : p + c])
        p += c
    if p < len(data):
        items.append(data[p:])
    return gateway_io.ProxyIO(StubChan(items), em)


def compositions(n):
    """all ways to cut a stream of n bytes into chunks"""
    if n == 0:
        yield []
        return
    for mask in range(1 << (n - 1)):
        out = []
        last = 0
        for i in range(1, n):
            if mask >> (i - 1) & 1:
                out.append(i - last)
                last = i
        out.append(n - last)
        yield out


def bounded_cuts(n, d):
    """chunkings with at most d chunk boundaries"""
    yield [n]
    for k in range(1, d + 1):
        for cuts in itertools.combinations(range(1, n), k):
            out = []
            last = 0
            for c in cuts:
                out.append(c - last)
                last = c
            out.append(n - last)
            yield out


def decode_all(kind, stream, chunks, nmsgs):
    from execnet.gateway_base import Message

    io = make_reader(kind, stream, chunks)
    out = []
    for _ in range(nmsgs):
        m = Message.from_io(io)
        out.append((m.msgcode, m.channelid, bytes(m.data)))
    return out


def chunk_job(job):
    kind, msgs, mode, d = job
    n = 0
    bad = None
    for seq in msgs:
        stream = b"".join(ref_frame(*m) for m in seq)
        gen = compositions(len(stream)) if mode == "all" else bounded_cuts(len(stream), d)
        for chunks in gen:
            n += 1
            try:
                got = decode_all(kind, stream, chunks, len(seq))
            except BaseException as e:  # noqa: BLE001
                got = f"{type(e).__name__}: {e}"
            if got != [tuple(m) for m in seq]:
                if bad is None:
                    bad = (kind, seq, chunks, got)
                break
    return n, bad


def write_check():
    """to_io through every IO class: one write call, bytes == reference framing"""
    from execnet import gateway_base as gb
    from execnet import gateway_io
    from execnet import gateway_socket
    from execnet.gateway_base import Message

    em = gb.get_execmodel("thread")
    bad = []
    n = 0
    for code in CODES:
        for cid in IDS:
            for plen in (0, 1, 2, 9, 17, 70000):
                payload = bytes((i * 7 + code) % 256 for i in range(plen))
                want = ref_frame(code, cid, payload)
                for kind in ("popen", "socket", "proxy"):
                    n += 1
                    if kind == "popen":
                        sink = Sink()
                        io = gb.Popen2IO(sink, ScriptedReader(b"", []), em)
                        Message(code, cid, payload).to_io(io)
                        got, calls = bytes(sink.buf), sink.calls
                    elif kind == "socket":
                        sink = Sink()
                        io = gateway_socket.SocketIO(sink, em)
                        Message(code, cid, payload).to_io(io)
                        got, calls = bytes(sink.buf), sink.calls
                    else:
                        chan = StubChan([])
                        io = gateway_io.ProxyIO(chan, em)
                        Message(code, cid, payload).to_io(io)
                        items = [x for x in chan.sent if isinstance(x, bytes)]
                        got, calls = b"".join(items), len(items)
                    if got != want:
                        bad.append(("bytes-written", kind, code, cid, plen))
                    elif calls != 1:
                        bad.append(("not-one-write", kind, code, cid, plen, calls))
    return n, bad


REAL_READER_CELL = r'''
import os, sys, json, zlib
sys.path.insert(0, "/repo/src")
import execnet
assert execnet.__file__.startswith("/repo/src")
transport, prog = sys.argv[1:3]
sizes = json.loads(sys.argv[3])
g = execnet.Group()
if transport == "popen":
    gw = g.makegateway("popen")
elif transport == "python":
    gw = g.makegateway("popen//python=%s" % sys.executable)
else:
    g.makegateway("popen//id=m")
    gw = g.makegateway("popen//via=m")
READER = {
 # something else in the worker reads "standard input" while frames are coming in
 "fd0": "import os, threading\ndef rd():\n    while os.read(0, 65536):\n        pass\nthreading.Thread(target=rd, daemon=True).start()",
 "child": "import subprocess, sys\nsubprocess.Popen([sys.executable, '-c', 'import sys, signal; signal.alarm(60); sys.stdin.buffer.read()'])",
 "none": "pass",
}[prog]
ch = gw.remote_exec(READER + "\nimport zlib\nchannel.send('up')\nfor x in channel:\n    channel.send((len(x), zlib.crc32(x)))")
out = []
try:
    ch.receive(20)
    for n in sizes:
        data = bytes((i * 7 + n) % 251 for i in range(min(n, 1000))) * (n // 1000 + 1)
        data = data[:n]
        ch.send(data)
        out.append(list(ch.receive(20)) == [len(data), zlib.crc32(data)])
except Exception as e:
    out.append("EXC %s %s" % (type(e).__name__, str(e)[:80]))
try:
    g.terminate(2)
except Exception:
    pass
print(json.dumps(out))
'''


def real_reader_cell(cell):
    import json
    import os
    import subprocess
    import sys

    transport, prog, sizes = cell
    env = dict(os.environ)
    env["PYTHONPATH"] = "/repo/src"
    try:
        r = subprocess.run([sys.executable, "-c", REAL_READER_CELL, transport, prog, json.dumps(sizes)], capture_output=True, text=True, timeout=180, env=env, stdin=subprocess.DEVNULL)
        line = r.stdout.strip().splitlines()[-1] if r.stdout.strip() else f"NO-OUTPUT rc={r.returncode} {r.stderr[-300:]}"
    except subprocess.TimeoutExpired:
        line = "TIMEOUT"
    return cell, line


def run(tier: str, only=None) -> int:
    rep = evidence.Report(PID, tier, "model_checking")
    rep.rule.append("all 8 message codes x 5 channel ids (full signed 32-bit range) x payload lengths; ALL compositions of the byte stream into low-level reads for streams <= 14 bytes, all chunkings with <= 3 boundaries for longer streams and 2-message sequences, through Popen2IO / SocketIO / ProxyIO reads; concurrent senders on one gateway over virtual popen / socket / via with sendall split deviations under all interleavings within bounds")
    # --- (a) chunking -------------------------------------------------
    small = [[(c, i, bytes(range(n)))] for c in CODES for i in IDS for n in (0, 1, 2, 5)]
    long1 = [[(c, i, bytes(range(n)))] for c in (0, 4, 7) for i in (1, -(2**31)) for n in (9, 10, 17)]
    seq2 = [[(4, 1, b"ab"), (5, 1, b"")], [(4, 3, b""), (4, -1, bytes(range(9)))], [(6, 2**31 - 1, b"x" * 10), (4, 1, b"y")]]
    jobs = []
    for kind in ("popen", "socket", "proxy"):
        for i in range(0, len(small), 4):
            jobs.append((kind, small[i : i + 4], "all", 0))
        for s in long1 + seq2:
            jobs.append((kind, [s], "bounded", 3 if tier == "quick" else 4))
    res = pmap(chunk_job, jobs)
    n = sum(r[0] for r in res)
    rep.add_enumeration("read-chunkings", n, n, {"messages": len(small) + len(long1) + len(seq2), "io_classes": 3})
    for _, bad in res:
        if bad:
            kind, seq, chunks, got = bad
            rep.violation(f"c08:chunking-{kind}", f"{kind}: frames {seq} read in chunks {chunks} decoded as {got}", {"check": PID, "sub": "chunking", "kind": kind, "chunks": chunks})
    rep.sample({"frame": [4, -1, "00 01"], "chunks": [1, 3, 4, 1, 2]})
    nw, bad = write_check()
    rep.add_enumeration("frames-written", nw, nw)
    for b in bad[:3]:
        rep.violation(f"c08:{b[0]}-{b[1]}", f"to_io through {b[1]}: {b}", {"check": PID, "sub": "write"})
    # --- (b) concurrent senders ----------------------------------------
    cap = 400000 if tier == "quick" else 6000000
    progs = [
        ("up2", [ch(up=2, up_senders=2)]),
        ("down2", [ch(down=2, down_senders=2)]),
        ("two-chan", [ch(up=1), ch(up=1)]),
    ]
    if tier == "thorough":
        progs.append(("up4", [ch(up=4, up_senders=2)]))
        progs.append(("both", [ch(up=2, down=2, up_senders=2, down_senders=2)]))
    for pname, chans in progs:
        for tr in ("popen", "socket", "via"):
            for size in (1, 70000):
                name = f"senders/{pname}:{tr}:{size}"
                if only and only not in name:
                    continue
                if tier == "quick" and size == 70000 and tr != "socket":
                    continue
                P = {"transport": tr, "backend": "thread", "channels": chans, "size": size, "sendall_splits": True}
                rep.sample({"sub": name, "params": {k: v for k, v in P.items() if k != "channels"}})
                big = pname in ("up4", "both", "two-chan")
                if tr == "socket":
                    bounds = {"ps": 1, "env": 1, "free": 0} if tier == "quick" else ({"ps": 1, "env": 1, "free": 1} if big else {"ps": 2, "env": 1, "free": 1})
                else:
                    bounds = {"ps": 2, "free": 0} if tier == "quick" or big else {"ps": 2, "free": 1}
                harness.run_exploration(rep, PID, name, ChanProgC08, P, bounds, max_execs=cap)
    # a large data frame against header-only frames of other channels
    for tr in ("socket", "popen", "via"):
        for d, others in (("up", ("close", "status", "drop")), ("down", ("end",))):
            for other in others:
                name = f"mix/{tr}:{d}:{other}"
                if only and only not in name:
                    continue
                if tier == "quick" and tr != "socket" and other not in ("close", "end"):
                    continue
                P = {"transport": tr, "size": 70000, "dir": d, "other": other}
                bounds = ({"ps": 1, "env": 1, "free": 1} if tr == "socket" else {"ps": 1, "free": 0}) if tier == "quick" else {"ps": 2, "env": 1, "free": 1}
                harness.run_exploration(rep, PID, name, MixScn, P, bounds, max_execs=cap)
    rep.assumptions += ["BufferedWriter.write of a pipe is atomic per call (popen path); socket sendall is a loop of partial sends whose split points are environment choices", "virtual primitives as in DESIGN 7"]
    # --- real processes: frames of every size class while something else in the worker reads stdin ----
    if not only or "real" in only:
        import json

        sizes = [0, 1, 9, 4095, 4096, 65535, 65536, 65537, 300000] + ([4 * 1024 * 1024 + 1] if tier != "quick" else [])
        cells = [(tr, prog, sizes) for tr in ("popen", "python", "via") for prog in ("none", "fd0", "child")]
        res = pmap(lambda chunk: [real_reader_cell(x) for x in chunk], [cells[i::9] for i in range(9)])
        for chunk in res:
            for cell, line in chunk:
                try:
                    ok = json.loads(line) == [True] * len(sizes)
                except ValueError:
                    ok = False
                if not ok:
                    again = real_reader_cell(cell)[1]
                    if again != json.dumps([True] * len(sizes)):
                        rep.violation(f"c08:real-frames-lost:{cell[1]}", f"real {cell[0]} gateway while '{cell[1]}' reads the worker's standard input: echo of frames of sizes {sizes} -> {line} / {again}", {"check": PID, "sub": "real", "cell": [cell[0], cell[1]]})
        rep.add_enumeration("real-second-reader-cells", len(cells) * len(sizes), len(cells))
    return rep.finish()


class ChanProgC08:
    scenario = staticmethod(ChanProg.scenario)

    @staticmethod
    def oracle(w, S, P):
        v, out = ChanProg.oracle(w, S, P)
        if v is not None:
            return ("c08:" + v[0].split(":", 1)[1], v[1]), out
        return None, out


class MixScn:
    """a large data frame racing with header-only frames (close / status / exec end) of other channels.
    P: transport, size, dir ("up" | "down"), other ("close" | "status" | "drop")"""

    @staticmethod
    def scenario(w, P):
        from .common import Session

        S = Session(w, P["transport"], "thread")
        w.opts["sendall_splits"] = True
        size = P["size"]

        def main():
            gw = S.open()
            em = S.proc.execmodel
            if P["dir"] == "up":
                big = gw.remote_exec("W = channel.gateway.execmodel.world\nx = channel.receive()\nW.observe('wgot', len(x), x[:1], x[-1:])")
                other = gw.remote_exec("try:\n    channel.receive()\nexcept EOFError:\n    channel.gateway.execmodel.world.observe('other-eof')")
                em.sleep(0.5)
                w.exploring = True

                def send_big():
                    try:
                        big.send(b"a" + b"x" * (size - 2) + b"z")
                    except BaseException as e:  # noqa: BLE001
                        w.observe("send-exc", type(e).__name__, str(e)[:80])

                def do_other():
                    try:
                        if P["other"] == "close":
                            other.close()
                        elif P["other"] == "status":
                            w.observe("status", gw.remote_status().numexecuting >= 1)
                    except BaseException as e:  # noqa: BLE001
                        w.observe("other-exc", type(e).__name__, str(e)[:80])

                S.user(send_big, "big")
                S.user(do_other, "other")
                if P["other"] == "drop":
                    del other
                S.join_users()
                try:
                    big.waitclose(20)
                except BaseException as e:  # noqa: BLE001
                    w.observe("big-exc", type(e).__name__, str(e)[:80])
            else:
                # worker side: the primary thread sends the large item while a second body just ends
                big = gw.remote_exec("channel.receive()\nchannel.send(b'a' + b'x' * %d + b'z')" % (size - 2))
                other = gw.remote_exec("channel.receive()")
                em.sleep(0.5)
                w.exploring = True
                big.send("go")
                other.send("go")
                try:
                    x = big.receive(timeout=20)
                    w.observe("wgot", len(x), x[:1], x[-1:])
                    other.waitclose(20)
                    big.waitclose(20)
                except BaseException as e:  # noqa: BLE001
                    w.observe("big-exc", type(e).__name__, str(e)[:80])
            w.exploring = False
            em.sleep(0.5)
            S.ctx["alive"] = gw.hasreceiver()
            try:
                c = gw.remote_exec("channel.send(7)")
                S.ctx["fresh"] = c.receive(timeout=20)
            except BaseException as e:  # noqa: BLE001
                S.ctx["fresh"] = type(e).__name__
            S.ctx["done"] = True
            S.group.terminate(timeout=2.0)

        S.main(main)
        return S

    @staticmethod
    def oracle(w, S, P):
        obs = w.obs
        out = tuple(e[0] for e in obs)
        if not S.ctx.get("done"):
            return ("c08:mix-hang", f"P={P} obs={obs} blocked={w.blocked_at_end} stderr={w.stderr.getvalue()[-500:]}"), out
        for e in obs:
            if e[0].endswith("-exc"):
                return ("c08:mix-exception", f"P={P}: {e} obs={obs} stderr={w.stderr.getvalue()[-500:]}"), out
        if ("wgot", P["size"], b"a", b"z") not in obs:
            return ("c08:mix-corrupt", f"P={P}: the large item did not arrive intact: {obs}"), out
        if S.ctx.get("fresh") != 7 or not S.ctx.get("alive"):
            return ("c08:mix-gateway-down", f"P={P}: gateway alive={S.ctx.get('alive')} fresh={S.ctx.get('fresh')} stderr={w.stderr.getvalue()[-500:]}"), out
        return None, out


SCENARIOS = {"senders": ChanProgC08, "mix": MixScn}


def replay(path: str) -> int:
    import json

    d = json.load(open(path))
    if "choices" in d:
        return harness.replay_file(path, SCENARIOS)
    print(d)
    return 1
