"""shared scenario helpers: a virtual execnet session (Group + gateway over a
virtual popen / via / socket topology) with user threads."""

from __future__ import annotations

from engine.vworld import VEvent

TRANSPORTS = ("popen", "via", "socket")


class Session:
    """runs in the initiator's virtual process"""

    def __init__(self, w, transport="popen", backend="thread", local_backend="thread") -> None:
        self.w = w
        self.transport = transport
        self.backend = backend
        self.proc = w.new_proc("init", local_backend)
        self.users: list = []
        self.group = None
        self.gw = None
        self.ctx: dict = {}

    # -- called from the main virtual thread ---------------------------
    def open(self):
        from execnet.multi import Group

        self.group = g = Group(execmodel=self.proc.execmodel)
        t = self.transport
        if t == "popen":
            self.gw = g.makegateway(f"popen//id=gw0//execmodel={self.backend}")
        elif t == "via":
            g.makegateway("popen//id=master//execmodel=thread")
            self.gw = g.makegateway(f"popen//via=master//id=gw0//execmodel={self.backend}")
        elif t == "socket":
            # the socket worker lives inside the installvia gateway's process and
            # inherits its exec model
            g.makegateway(f"popen//id=master//execmodel={self.backend}")
            self.gw = g.makegateway("socket//installvia=master//id=gw0")
        else:
            raise ValueError(t)
        return self.gw

    def worker_proc(self):
        """the virtual process that hosts the gw0 worker"""
        procs = self.w.procs
        if self.transport == "popen":
            return procs[1]
        if self.transport == "via":
            return procs[2]
        return procs[1]

    def user(self, fn, name: str, args=()):
        done = VEvent(self.w)

        def run():
            try:
                fn(*args)
            finally:
                done.flag = True

        t = self.w.spawn(run, proc=self.proc, name=name, role="user")
        self.users.append((t, done))
        return t

    def join_users(self, timeout=None) -> bool:
        ok = True
        for _t, done in self.users:
            if not done.wait(timeout):
                ok = False
        return ok

    def main(self, fn):
        """register fn as the initiator's main thread"""
        return self.w.spawn(fn, proc=self.proc, name="main", role="user", is_main=True)


def exc_name(e: BaseException) -> str:
    return type(e).__name__


def blocked_users(w):
    return [b for b in w.blocked_at_end if b[2] == "user"]


WORLD_ACCESS = "W = channel.gateway.execmodel.world\n"
