"""C14 -- main_thread_only executes in the main thread and never cries deadlock falsely."""

from __future__ import annotations

import itertools

from engine import evidence
from engine import harness

from .common import Session

PID = "C14"

BODY = '''
em = channel.gateway.execmodel
W = em.world
idx = {idx}
W.observe("start", idx, em.get_ident())
kind = {kind!r}
try:
    if kind == "sleep1":
        em.sleep(1.0)              # ends exactly when the 1 s grace wait of an overlapping submission expires
    if kind == "sleep04":
        em.sleep(0.4)              # ends well inside the grace wait of a submission that overlaps it
    if kind == "block":
        channel.receive()          # released by the initiator
    if kind == "raise":
        raise ValueError("boom-%d" % idx)
    if kind == "sysexit":
        raise SystemExit(2)
    if kind == "kbi":
        raise KeyboardInterrupt()
    channel.send(("ret", idx))
finally:
    W.observe("end", idx)
'''


class MtoScn:
    """P: hist: list of (kind, mode) -- mode "seq": submitted after the previous channel closed;
    "overlap": submitted while the previous (a "block" body) is still running."""

    @staticmethod
    def scenario(w, P):
        S = Session(w, P.get("transport", "popen"), "main_thread_only")

        def main():
            if P.get("explore_startup"):
                # the first remote_exec may reach the worker while its main thread is still starting up
                w.exploring = True
            gw = S.open()
            em = S.proc.execmodel
            S.ctx["main_tid"] = S.worker_proc().main.tid
            w.exploring = True
            prev = None
            prev_kind = None
            for idx, (kind, mode) in enumerate(P["hist"]):
                if mode == "overlap-short":
                    # submitted while the previous (short) body still runs: admitted once that one has ended
                    ch = gw.remote_exec(BODY.format(idx=idx, kind=kind))
                    prev, prev_kind = ch, kind
                    continue
                if prev is not None and mode == "seq":
                    if prev_kind == "block":
                        prev.send("go")
                    try:
                        prev.waitclose(30)
                        w.observe("closed", idx - 1, "ok")
                    except prev.RemoteError as e:
                        w.observe("closed", idx - 1, "RemoteError", str(e)[-120:])
                    except BaseException as e:  # noqa: BLE001
                        w.observe("closed", idx - 1, type(e).__name__)
                ch = gw.remote_exec(BODY.format(idx=idx, kind=kind))
                if mode == "overlap":
                    # the previous body is blocked in its receive(): this one must be refused
                    try:
                        ch.waitclose(30)
                        w.observe("overlap", idx, "ran")
                    except ch.RemoteError as e:
                        w.observe("overlap", idx, "RemoteError", str(e))
                    except BaseException as e:  # noqa: BLE001
                        w.observe("overlap", idx, type(e).__name__)
                    continue  # prev stays the blocked one
                prev, prev_kind = ch, kind
            if prev_kind == "block":
                prev.send("go")
            try:
                prev.waitclose(30)
                w.observe("closed", "last", "ok")
            except prev.RemoteError as e:
                w.observe("closed", "last", "RemoteError", str(e)[-120:])
            except BaseException as e:  # noqa: BLE001
                w.observe("closed", "last", type(e).__name__)
            w.exploring = False
            w.observe("main-done")
            S.group.terminate(timeout=2.0)

        S.main(main)
        return S

    @staticmethod
    def oracle(w, S, P):
        from execnet.gateway_base import MAIN_THREAD_ONLY_DEADLOCK_TEXT as DT

        obs = w.obs
        outcome = tuple(e[:2] for e in obs if e[0] in ("start", "overlap"))

        def V(key, msg):
            return (f"c14:{key}", f"{msg}\n  params={P}\n  obs={obs}\n  blocked={w.blocked_at_end}\n  stderr={w.stderr.getvalue()[-600:]}"), outcome

        if ("main-done",) not in obs:
            return V("hang", "main never finished")
        main_tid = S.ctx["main_tid"]
        running = None
        started = []
        for e in obs:
            if e[0] == "start":
                if e[2] != main_tid:
                    return V("not-main-thread", f"body {e[1]} ran in thread {e[2]}, the worker's main thread is {main_tid}")
                if running is not None:
                    return V("overlap", f"body {e[1]} started while body {running} was still running")
                running = e[1]
                started.append(e[1])
            elif e[0] == "end":
                running = None
        if started != sorted(started):
            return V("order", f"bodies started in order {started}")
        for idx, (kind, mode) in enumerate(P["hist"]):
            if mode == "overlap":
                ov = [e for e in obs if e[0] == "overlap" and e[1] == idx]
                prevkind = P["hist"][idx - 1][0]
                if prevkind == "sleep1":
                    # the earlier body ends at the very instant the grace wait expires: the submission is
                    # either refused with the documented error or runs after the earlier body
                    refused = bool(ov) and ov[0][2] == "RemoteError" and DT in ov[0][3]
                    ran = bool(ov) and ov[0][2] == "ran" and idx in started
                    if not (refused or ran) or (refused and idx in started):
                        return V("overlap-outcome", f"remote_exec {idx} racing with the end of the earlier body: {ov}, started={started}")
                    continue
                if not ov or ov[0][2] != "RemoteError" or DT not in ov[0][3]:
                    return V("overlap-not-refused", f"remote_exec {idx} issued while an earlier body was running: {ov}")
                if idx in started:
                    return V("overlap-not-refused", f"refused body {idx} ran anyway")
            else:
                if idx not in started:
                    why = [e for e in obs if e[0] == "closed" and e[1] in (idx, "last")]
                    return V("false-deadlock", f"remote_exec {idx} (kind {kind}) issued after the previous channel had closed did not run: {why}")
        # the earlier (blocked) body is not disturbed by a refused overlap
        for idx, (kind, mode) in enumerate(P["hist"]):
            if kind == "block" and mode != "overlap" and not any(e[0] == "end" and e[1] == idx for e in obs):
                return V("earlier-disturbed", f"blocked body {idx} never finished")
        return None, outcome


SCENARIOS = {"mto": MtoScn}


def stmt_pred(m, q, l):
    return m == "gateway_base" and (q.startswith("WorkerGateway.") or q.startswith("WorkerPool.") or q.startswith("Reply."))


def histories(tier):
    kinds = ("ret", "raise", "sysexit", "kbi", "block")
    maxlen = 3 if tier == "quick" else 4
    hs = []
    for n in range(1, maxlen + 1):
        for ks in itertools.product(kinds, repeat=n):
            # an overlapping submission directly follows a "block" body
            opts = []
            for i, k in enumerate(ks):
                if i > 0 and ks[i - 1] in ("block", "sleep1"):
                    opts.append(("seq", "overlap"))
                else:
                    opts.append(("seq",))
            for modes in itertools.product(*opts):
                # after an overlap the blocked body is still the previous one; at most one overlap per block
                hs.append([(k, m) for k, m in zip(ks, modes)])
    if tier == "quick":
        # all histories of length <= 2, and length 3 restricted to those with a failing middle or an overlap
        hs = [h for h in hs if len(h) <= 2 or (h[1][0] in ("raise", "sysexit", "kbi") and h[0][0] in ("ret", "block") and h[2][0] in ("ret", "raise")) or any(m == "overlap" for _, m in h) and h[2][0] in ("ret",) and h[0][0] == "block"]
    # a body submitted while a SHORT one still runs is admitted afterwards; what overlaps *it* must be refused
    hs.append([("sleep04", "seq"), ("block", "overlap-short"), ("ret", "overlap"), ("ret", "seq")])
    hs.append([("sleep04", "seq"), ("ret", "overlap-short"), ("block", "seq"), ("ret", "overlap")])
    # the grace wait of an overlapping submission expiring exactly when the earlier body ends
    for tail in (["ret"], ["ret", "ret"], ["raise", "ret"]):
        hs.append([("sleep1", "seq"), ("ret", "overlap")] + [(k, "seq") for k in tail])
    return hs


def run(tier: str, only=None) -> int:
    rep = evidence.Report(PID, tier, "model_checking")
    rep.rule.append("all histories of remote_exec outcomes {return, raise, SystemExit, KeyboardInterrupt, blocked} with sequential or overlapping submission x all interleavings of the worker's receiver and main threads within the bounds")
    rep.assumptions += ["discrete-event time: the 1 s grace wait of _local_schedulexec never expires while the previous body's thread is runnable", "virtual primitives / statement granularity as in DESIGN 7"]
    stmt = harness.stmt_mask(stmt_pred)
    cap = 300000 if tier == "quick" else 6000000
    hs = histories(tier)
    for i, H in enumerate(hs):
        name = "mto/" + ",".join(f"{k}{'!' if m == 'overlap' else ''}" for k, m in H)
        if only and only not in name:
            continue
        P = {"hist": H}
        if i % 7 == 0:
            rep.sample({"sub": name, "params": P})
        deep = len(H) <= 2 or any(k == "sleep04" for k, _ in H)
        tie = any(k == "sleep1" for k, _ in H)  # timer ties are picks at blocking points: need free >= 1
        harness.run_exploration(rep, PID, name + "/sync", MtoScn, P, ({"ps": 2, "free": 1} if deep or tie else {"ps": 1, "free": 0}) if tier == "quick" else {"ps": 2, "free": 2 if tie else 1}, max_execs=cap)
        if deep or tier == "thorough":
            harness.run_exploration(rep, PID, name + "/stmt", MtoScn, P, {"ps": 0, "pl": 1, "free": 0}, stmt=stmt, max_execs=cap)
    # the worker's start-up (serve) against the first remote_exec
    sstmt = harness.stmt_mask(startup_pred)
    for H in ([("ret", "seq")], [("raise", "seq"), ("ret", "seq")]):
        name = "mto-startup/" + ",".join(k for k, _ in H)
        if only and only not in name:
            continue
        P = {"hist": H, "explore_startup": True}
        harness.run_exploration(rep, PID, name + "/sync", MtoScn, P, {"ps": 1, "free": 1} if tier == "quick" else {"ps": 2, "free": 1}, max_execs=cap)
        harness.run_exploration(rep, PID, name + "/stmt", MtoScn, P, {"ps": 0, "pl": 1, "free": 1}, stmt=sstmt, max_execs=cap)
    return rep.finish()


def startup_pred(m, q, l):
    return stmt_pred(m, q, l) or (m == "gateway_base" and (q.startswith("WorkerGateway.serve") or q.startswith("BaseGateway._initreceive")))


def replay(path: str) -> int:
    return harness.replay_file(path, SCENARIOS, stmt_for=lambda d: harness.stmt_mask(startup_pred if "mto-startup" in d.get("sub", "") else stmt_pred))
