"""C19 -- channel files behave like files over the concatenated items."""

from __future__ import annotations

import io
import itertools

from engine import evidence
from engine import explorer
from engine.parallel import pmap

from .common import Session

PID = "C19"

CALLS = [("read", 0), ("read", 1), ("read", 2), ("read", 7), ("readline", None)]
TAIL = [("read", 3), ("readline", None), ("read", 1)]


class StubChannel:
    """the receive side of a channel: items then EOFError, forever"""

    id = 7

    def __init__(self, items) -> None:
        self.items = list(items)
        self.closed = False
        self.nclose = 0

    def receive(self, timeout=None):
        if self.items:
            return self.items.pop(0)
        raise EOFError()

    def isclosed(self) -> bool:
        return self.closed

    def close(self, error=None) -> None:
        self.closed = True
        self.nclose += 1


def splits(s, max_empty):
    """all ordered splits of s into non-empty pieces, with up to max_empty empty items interleaved"""
    n = len(s)
    out = []
    for cuts in range(1 << max(0, n - 1)):
        pieces = []
        start = 0
        for i in range(1, n):
            if cuts >> (i - 1) & 1:
                pieces.append(s[start:i])
                start = i
        if n:
            pieces.append(s[start:])
        out.append(pieces)
        empty = s[:0]
        slots = len(pieces) + 1
        for k in range(1, max_empty + 1):
            for pos in itertools.combinations_with_replacement(range(slots), k):
                p2 = list(pieces)
                for off, p in enumerate(pos):
                    p2.insert(p + off, empty)
                out.append(p2)
    return out


def run_reader_chunk(chunk):
    import execnet

    seqs, strings, kind, max_empty = chunk
    bad = None
    n = 0
    for s in strings:
        s = s if kind == "text" else s.encode("ascii")
        for items in splits(s, max_empty):
            for seq in seqs:
                n += 1
                ref = io.StringIO(s) if kind == "text" else io.BytesIO(s)
                f = execnet.Channel.makefile(StubChannel(items), "r")
                for ci, (name, arg) in enumerate(list(seq) + TAIL):
                    want = ref.read(arg) if name == "read" else ref.readline()
                    try:
                        got = f.read(arg) if name == "read" else f.readline()
                    except BaseException as e:  # noqa: BLE001
                        got = ("EXC", type(e).__name__, str(e)[:60])
                    ok = got == want or (not want and not got and not isinstance(got, tuple))
                    if not ok:
                        if bad is None or len(items) + len(seq) < bad[0]:
                            bad = (len(items) + len(seq), f"{kind} items={items!r} calls={list(seq) + TAIL}: call #{ci} {name}({'' if arg is None else arg}) returned {got!r}, a file over {s!r} returns {want!r}", "exception" if isinstance(got, tuple) else "mismatch", name, kind)
                        break
    return n, bad


class WriterScn:
    """a sequence of makefile('w') operations on a real channel in a virtual session"""

    @staticmethod
    def scenario(w, P):
        S = Session(w, "popen", "thread")

        def main():
            gw = S.open()
            ch = gw.remote_exec("W = channel.gateway.execmodel.world\ngot = []\ntry:\n    for x in channel:\n        got.append(x)\nfinally:\n    W.observe('peer-got', got)")
            f = ch.makefile("w", proxyclose=P["proxyclose"]) if P["explicit"] else ch.makefile(proxyclose=P["proxyclose"])
            log = []
            for op in P["ops"]:
                try:
                    if op == "w1":
                        f.write("one")
                    elif op == "w2":
                        f.write(b"two")
                    elif op == "we":
                        f.write("")
                    elif op == "wb":
                        f.write(b"")
                    elif op == "flush":
                        f.flush()
                    elif op == "fclose":
                        f.close()
                    elif op == "cclose":
                        ch.close()
                    log.append((op, "ok", ch.isclosed()))
                except OSError:
                    log.append((op, "OSError", ch.isclosed()))
                except BaseException as e:  # noqa: BLE001
                    log.append((op, type(e).__name__, ch.isclosed()))
            S.ctx["log"] = log
            S.ctx["isatty"] = f.isatty()
            if not ch.isclosed():
                ch.close()
            S.proc.execmodel.sleep(0.5)
            S.ctx["done"] = True
            S.group.terminate(timeout=1.0)

        S.main(main)
        return S

    @staticmethod
    def oracle(w, S, P):
        if not S.ctx.get("done"):
            return ("c19:writer-hang", f"blocked={w.blocked_at_end} stderr={w.stderr.getvalue()[-400:]}"), 0
        log = S.ctx["log"]
        closed = False
        want_items = []
        for (op, res, isclosed), o in zip(log, P["ops"]):
            if o in ("w1", "w2", "we", "wb"):
                exp = "OSError" if closed else "ok"
                if not closed:
                    want_items.append({"w1": "one", "w2": b"two", "we": "", "wb": b""}[o])
            elif o == "flush":
                exp = "ok"
            elif o == "fclose":
                exp = "ok"
                if P["proxyclose"]:
                    closed = True
            else:
                exp = "ok"
                closed = True
            if res != exp or isclosed != closed:
                return ("c19:writer", f"ops={P['ops']} proxyclose={P['proxyclose']}: after {o}: result {res} (expected {exp}), channel closed={isclosed} (expected {closed}); log={log}"), 0
        got = [e[1] for e in w.obs if e[0] == "peer-got"]
        if got != [want_items]:
            return ("c19:writer-items", f"ops={P['ops']}: peer received {got}, expected one item per write: {want_items}"), 0
        if S.ctx["isatty"] is not False:
            return ("c19:writer", "isatty() is not False"), 0
        return None, len(want_items)


class RealReaderScn:
    """read()/readline() on a real channel in a virtual session (binds the stub runs to the real Channel)"""

    @staticmethod
    def scenario(w, P):
        S = Session(w, P.get("transport", "popen"), "thread")

        def main():
            gw = S.open()
            ch = gw.remote_exec("for x in %r:\n    channel.send(x)" % (P["items"],))
            f = ch.makefile("r", proxyclose=P.get("proxyclose", False))
            out = []
            for name, arg in P["calls"]:
                try:
                    out.append(f.read(arg) if name == "read" else f.readline())
                except BaseException as e:  # noqa: BLE001
                    out.append(("EXC", type(e).__name__))
            S.ctx["out"] = out
            S.ctx["closed"] = ch.isclosed()
            f.close()
            S.ctx["closed_after_fclose"] = ch.isclosed()
            S.ctx["done"] = True
            S.group.terminate(timeout=1.0)

        S.main(main)
        return S

    @staticmethod
    def oracle(w, S, P):
        if not S.ctx.get("done"):
            return ("c19:reader-hang", f"blocked={w.blocked_at_end}"), 0
        s = P["items"][0][:0]
        for it in P["items"]:
            s += it
        ref = io.StringIO(s) if isinstance(s, str) else io.BytesIO(s)
        want = [ref.read(a) if n == "read" else ref.readline() for n, a in P["calls"]]
        got = S.ctx["out"]
        for g, x, c in zip(got, want, P["calls"]):
            if not (g == x or (not g and not x and not isinstance(g, tuple))):
                return ("c19:reader-real-channel", f"items={P['items']} calls={P['calls']}: got {got}, a file returns {want}"), 0
        return None, 1


class SendonlyReaderScn:
    """the peer dropped its handle but keeps listening through a callback ("sendonly" here): reading
    to the end through makefile('r') must not close the channel unless proxyclose was requested"""

    @staticmethod
    def scenario(w, P):
        S = Session(w, "popen", "thread")

        def main():
            gw = S.open()
            ctl = gw.remote_exec(
                "W = channel.gateway.execmodel.world\nc = channel.receive()\nc.send('ab\\n')\nc.send('c')\nc.setcallback(lambda x: W.observe('peer-cb', x))\ndel c\nchannel.send('dropped')\nchannel.receive()"
            )
            c = gw.newchannel()
            ctl.send(c)
            ctl.receive(timeout=10)
            S.proc.execmodel.sleep(0.5)
            f = c.makefile("r", proxyclose=P["proxyclose"])
            out = [f.readline(), f.read(5), f.read(1), f.readline()]
            w.observe("read", out, c.isclosed())
            res = []
            for item in ("x", "", b"y"):
                try:
                    c.makefile("w").write(item)
                    res.append("ok")
                except OSError:
                    res.append("OSError")
            w.observe("writes", res)
            S.proc.execmodel.sleep(0.5)
            ctl.send("done")
            w.observe("main-done")
            S.group.terminate(timeout=1.0)

        S.main(main)
        return S

    @staticmethod
    def oracle(w, S, P):
        obs = w.obs
        if ("main-done",) not in obs:
            return ("c19:sendonly-hang", f"obs={obs} blocked={w.blocked_at_end} stderr={w.stderr.getvalue()[-300:]}"), 0
        rd = [e for e in obs if e[0] == "read"][0]
        if rd[1] != ["ab\n", "c", "", ""]:
            return ("c19:sendonly-read", f"read results {rd[1]}"), 0
        closed = rd[2]
        if closed != P["proxyclose"]:
            return ("c19:read-file-closed-channel", f"after reading to the end, channel closed={closed} but proxyclose={P['proxyclose']} (the peer only dropped its handle and still listens)"), 0
        if not P["proxyclose"]:
            wr = [e for e in obs if e[0] == "writes"][0][1]
            got = [e[1] for e in obs if e[0] == "peer-cb"]
            if wr != ["ok", "ok", "ok"] or got != ["x", "", b"y"]:
                return ("c19:read-file-closed-channel", f"writes after reading to the end: {wr}; the peer's callback received {got}"), 0
        return None, 1


class EndThenWriteScn:
    """a thread reads through makefile('r') to the end of the channel and at once writes through
    makefile('w'): once the empty end-of-channel result was seen, the write must raise OSError --
    under every interleaving with the receiver thread that is closing the channel"""

    @staticmethod
    def scenario(w, P):
        S = Session(w, P.get("transport", "popen"), "thread")

        def main():
            gw = S.open()
            body = "for x in %r:\n    channel.send(x)\n" % (P["items"],)
            if P["end"] == "error":
                body += "raise ValueError('boom')\n"
            ch = gw.remote_exec(body)
            w.exploring = True

            def reader():
                f = ch.makefile("r")
                out = []
                try:
                    while True:
                        try:
                            x = f.readline() if P["call"] == "readline" else f.read(2)
                        except ch.RemoteError:
                            break  # the remote failure is the end of this channel
                        if not x:
                            break
                        out.append(x)
                    # the end of the channel was observed
                    try:
                        ch.makefile("w").write("late")
                        res = "ok"
                    except OSError:
                        res = "OSError"
                    w.observe("reader", out, res, ch.isclosed(), "closed" in repr(f))
                except BaseException as e:  # noqa: BLE001
                    w.observe("reader-exc", type(e).__name__, str(e)[:80])

            S.user(reader, "reader")
            S.join_users()
            w.exploring = False
            w.observe("main-done")
            S.group.terminate(timeout=1.0)

        S.main(main)
        return S

    @staticmethod
    def oracle(w, S, P):
        obs = w.obs
        if ("main-done",) not in obs:
            return ("c19:end-then-write-hang", f"obs={obs} blocked={w.blocked_at_end}"), 0
        rd = [e for e in obs if e[0] == "reader"]
        if not rd:
            return ("c19:end-then-write-exception", f"obs={obs}"), 0
        _, out, res, closed, rep_closed = rd[0]
        if "".join(out) != "".join(P["items"]) and P["end"] != "error":
            return ("c19:end-then-write-data", f"read {out} from items {P['items']}"), 0
        if res != "OSError" or not closed or not rep_closed:
            return ("c19:write-after-observed-end", f"after read() returned the empty end-of-channel result, write() -> {res}, isclosed()={closed}, file repr says closed={rep_closed}"), (res, closed)
        return None, (res, closed)


SCENARIOS = {"writer": WriterScn, "reader": RealReaderScn, "sendonly": SendonlyReaderScn, "endwrite": EndThenWriteScn}


def STMT_PRED(m, q, l):
    return m == "gateway_base" and (q.startswith("ChannelFactory.") or q.startswith("ChannelFile") or q.startswith("Channel.receive") or q.startswith("Channel.close") or q.startswith("Channel.send"))


def run(tier: str, only=None) -> int:
    rep = evidence.Report(PID, tier, "exploration")
    maxlen, seqlen, max_empty = (4, 3, 1) if tier == "quick" else (5, 4, 2)
    rep.rule.append(f"all strings over {{a, b, newline}} up to length {maxlen}, text and bytes x all ordered splits into channel items incl. up to {max_empty} interleaved empty items x all sequences of up to {seqlen} calls over read(0), read(1), read(2), read(7), readline() followed by three calls past the end, compared with io.StringIO / io.BytesIO over the concatenation; all makefile('w') operation sequences up to length 4 x proxyclose in a virtual session")
    strings = [""]
    for n in range(1, maxlen + 1):
        strings += ["".join(t) for t in itertools.product("ab\n", repeat=n)]
    seqs = []
    for n in range(0, seqlen + 1):
        seqs += list(itertools.product(CALLS, repeat=n))
    total = 0
    for kind in ("text", "bytes"):
        chunks = [(seqs, strings[i::48], kind, max_empty) for i in range(48)]
        res = pmap(run_reader_chunk, chunks)
        n = sum(r[0] for r in res)
        total += n
        rep.add_enumeration(f"reader-{kind}", n, n, {"strings": len(strings), "call_sequences": len(seqs)})
        bads = sorted([r[1] for r in res if r[1]], key=lambda b: b[0])
        if bads:
            _, msg, cls, name, k = bads[0]
            key = f"c19:{name}-{k}-{cls}"
            rep.violation(key, msg, {"check": PID, "sub": f"reader-{kind}", "detail": msg})
    rep.sample({"items": ["a", "", "\nb"], "calls": ["readline()", "read(2)", "read(3)", "readline()", "read(1)"]})
    # writer
    ops = ["w1", "w2", "we", "wb", "flush", "fclose", "cclose"]
    nw = 0
    for n in range(0, 5 if tier == "thorough" else 4):
        for seq in itertools.product(ops, repeat=n):
            if tier == "quick" and n == 3 and not (("fclose" in seq or "cclose" in seq) and ("we" in seq or "w1" in seq) and "wb" not in seq):
                continue
            for proxyclose in (False, True):
                nw += 1
                P = {"ops": list(seq), "proxyclose": proxyclose, "explicit": nw % 2 == 0}
                r = explorer.run_once(WriterScn.scenario, WriterScn.oracle, P, [], want_fp=False)
                if r.violation is not None:
                    rep.violation(r.violation[0], r.violation[1], {"check": PID, "sub": "writer", "params": P})
    rep.add_enumeration("writer-sequences", nw, nw)
    # real channel reader
    nr = 0
    for items in (["ab\n", "", "c\nd"], [b"ab\n", b"", b"c\nd"], ["x"], ["\n\n"], [b"12345678"]):
        for calls in ([("readline", None), ("read", 2), ("read", 7), ("readline", None)], [("read", 1), ("readline", None), ("readline", None), ("read", 1)], [("read", 7), ("read", 1)]):
            for tr in ("popen", "via"):
                nr += 1
                P = {"items": items, "calls": calls, "transport": tr}
                r = explorer.run_once(RealReaderScn.scenario, RealReaderScn.oracle, P, [], want_fp=False)
                if r.violation is not None:
                    rep.violation(r.violation[0] + ("-bytes" if isinstance(items[0], bytes) else ""), r.violation[1], {"check": PID, "sub": "reader", "params": {"items": repr(items), "calls": calls}})
    rep.add_enumeration("reader-real-channel", nr, nr)
    for pc in (False, True):
        r = explorer.run_once(SendonlyReaderScn.scenario, SendonlyReaderScn.oracle, {"proxyclose": pc}, [], want_fp=False)
        if r.violation is not None:
            rep.violation(r.violation[0], r.violation[1], {"check": PID, "sub": "sendonly", "proxyclose": pc})
    rep.add_enumeration("reader-on-sendonly-channel", 2, 2)
    from engine import harness

    stmt = harness.stmt_mask(STMT_PRED)
    for end in ("body-end", "error"):
        for call in ("read", "readline"):
            P = {"items": ["ab\n", "c"], "end": end, "call": call}
            name = f"endwrite/{end}:{call}"
            if only and only not in name:
                continue
            harness.run_exploration(rep, PID, name + "/sync", EndThenWriteScn, P, {"ps": 2, "free": 1}, max_execs=400000)
            harness.run_exploration(rep, PID, name + "/stmt", EndThenWriteScn, P, {"ps": 0, "pl": 1 if tier == "quick" else 2, "free": 1}, stmt=stmt, max_execs=400000)
    rep.assumptions += ["the exhaustive reader runs drive Channel.makefile('r') over a stub receive() (items, then EOFError forever); a set of histories over the real Channel in a virtual session binds them to the implementation"]
    return rep.finish()


def replay(path: str) -> int:
    import json

    from engine import harness

    d = json.load(open(path))
    if "choices" in d:
        return harness.replay_file(path, SCENARIOS, stmt_for=lambda d: harness.stmt_mask(STMT_PRED))
    print(d)
    return 1
