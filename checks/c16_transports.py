"""C16 -- every transport is observationally equivalent for channel programs."""

from __future__ import annotations

import json
import os
import subprocess
import sys

from engine import evidence
from engine import explorer
from engine import harness
from engine import instrument
from engine.parallel import pmap

from .common import Session

PID = "C16"

# deterministic channel programs: one user thread per side, every receive matched to one send.
# Each program is (name, remote source, script) where script(gw, T) drives the initiator and
# appends observations to the transcript T.
REMOTE = {
    "echo": "for x in channel:\n    channel.send(x)",
    "types": "channel.send([None, True, 1, -2**40, 1.5, 1j, b'\\x00\\xff', 'é€', (1, [2]), {'k': {3}}, frozenset([4])])\nchannel.send(b'z' * %d)\nchannel.send('')",
    "subchannel": "c = channel.receive()\nc.send(('hello', c.receive()))\nc2 = channel.gateway.newchannel()\nchannel.send(c2)\nc2.send('from-new')\nc2.close()\nc.close()",
    "error": "channel.send(1)\nraise ValueError('bad thing')",
    "callback": "for i in range(4):\n    channel.send(i)",
    "remote-callback": "import sys\ngot = []\nem = channel.gateway.execmodel\nev = em.Event()\ndef cb(x):\n    got.append(x)\n    if x == 'last':\n        ev.set()\nc = channel.receive()\nc.setcallback(cb)\nchannel.send('ready')\nev.wait()\nchannel.send(got)",
    "close-remote": "channel.send('bye')",
    "status": "channel.receive()",
    # the worker process is lost in the middle of a conversation (a second channel is open as well)
    "peer-dies": "import os\nchannel.send('alive')\nchannel.receive()\nos.kill(os.getpid(), 9)",
}


def script(name, gw, T, size):
    em = gw.execmodel
    if name == "echo":
        ch = gw.remote_exec(REMOTE["echo"])
        for v in (1, "two", b"\x03" * size, [4, (5,)], {"six": 6.0}):
            ch.send(v)
            T.append(("echo", ch.receive(timeout=60)))
        ch.close()
        T.append(("closed", ch.isclosed()))
    elif name == "types":
        ch = gw.remote_exec(REMOTE["types"] % size)
        a = ch.receive(timeout=60)
        T.append(("types", repr(a[:10]), sorted(a[10])))
        T.append(("big", len(ch.receive(timeout=60))))
        T.append(("empty", ch.receive(timeout=60)))
        try:
            ch.receive(timeout=60)
        except EOFError:
            T.append(("eof",))
    elif name == "subchannel":
        ch = gw.remote_exec(REMOTE["subchannel"])
        c = gw.newchannel()
        ch.send(c)
        c.send("ping")
        T.append(("sub", c.receive(timeout=60)))
        c2 = ch.receive(timeout=60)
        T.append(("new", type(c2).__name__, c2.id % 2, c2.receive(timeout=60)))
        for x in (c, c2, ch):
            x.waitclose(60)
            T.append(("closed", x.isclosed()))
    elif name == "error":
        ch = gw.remote_exec(REMOTE["error"])
        T.append(("item", ch.receive(timeout=60)))
        try:
            ch.receive(timeout=60)
        except ch.RemoteError as e:
            T.append(("RemoteError", str(e).strip().splitlines()[-1]))
        try:
            ch.receive(timeout=60)
        except EOFError:
            T.append(("eof",))
        T.append(("live", gw.hasreceiver()))
    elif name == "callback":
        ch = gw.remote_exec(REMOTE["callback"])
        got = []
        ev = em.Event()

        def cb(x):
            got.append(x)
            if x == "END":
                ev.set()

        ch.setcallback(cb, endmarker="END")
        ev.wait(60)
        T.append(("callback", list(got)))
        try:
            ch.receive()
        except OSError as e:
            T.append(("receive-refused", type(e).__name__))
    elif name == "remote-callback":
        ch = gw.remote_exec(REMOTE["remote-callback"])
        c = gw.newchannel()
        ch.send(c)
        T.append((ch.receive(timeout=60),))
        for x in ("a", b"b" * size, "last"):
            c.send(x)
        got = ch.receive(timeout=60)
        T.append(("remote-got", [g if not isinstance(g, bytes) else len(g) for g in got]))
    elif name == "close-remote":
        ch = gw.remote_exec(REMOTE["close-remote"])
        ch.waitclose(60)
        T.append(("after-close", ch.receive(timeout=60)))
        try:
            ch.send(1)
        except OSError:
            T.append(("send-refused",))
    elif name == "status":
        ch = gw.remote_exec(REMOTE["status"])
        em.sleep(0.5)
        st = gw.remote_status()
        T.append(("status", st.numexecuting, st.execmodel))
        ch.send(None)
        ch.waitclose(60)
    elif name == "peer-dies":
        other = gw.remote_exec("channel.send('other')\nchannel.receive()")
        ch = gw.remote_exec(REMOTE["peer-dies"])
        T.append(("first", ch.receive(timeout=60), other.receive(timeout=60)))
        ch.send("die")
        for label, fn in (("receive", lambda: ch.receive(timeout=60)), ("waitclose", lambda: ch.waitclose(60)), ("other-receive", lambda: other.receive(timeout=60)), ("other-waitclose", lambda: other.waitclose(60))):
            try:
                T.append((label, "returned", repr(fn())))
            except BaseException as e:  # noqa: BLE001
                T.append((label, type(e).__name__))
        em.sleep(0.5)
        try:
            gw.remote_exec("pass")
            T.append(("after", "accepted"))
        except OSError:
            T.append(("after", "OSError"))


PROGRAMS = list(REMOTE)


def GC_PRED(m, q, l):
    return (m == "gateway_base" and q in ("BaseGateway._send", "Message.to_io", "Channel.send", "Popen2IO.write", "SocketIO.write")) or (m == "gateway_io" and q.startswith("ProxyIO.write"))


class EqScn:
    """P: transport, backend, prog, size, explore"""

    @staticmethod
    def scenario(w, P):
        S = Session(w, P["transport"], P["backend"])
        if P.get("splits"):
            w.opts["sendall_splits"] = True
            w.short_reads = True

        def main():
            gw = S.open()
            T = []
            S.ctx["T"] = T
            if P.get("gc"):
                # an unreachable cycle holds a channel of this gateway; the collector may run at any
                # statement of the sending path (Channel.__del__ then sends from inside _send)
                c = gw.newchannel()
                cyc = [c]
                cyc.append(cyc)
                del c, cyc
                w.gc_mask = instrument.select(GC_PRED)
                w.gc_proc = S.proc  # the garbage lives in the initiator: its threads trigger the collector
            w.exploring = bool(P.get("explore"))
            try:
                script(P["prog"], gw, T, P["size"])
            except BaseException as e:  # noqa: BLE001
                T.append(("EXCEPTION", type(e).__name__, str(e)[:200]))
            w.exploring = False
            S.ctx["done"] = True
            S.group.terminate(timeout=2.0)

        S.main(main)
        return S

    @staticmethod
    def oracle(w, S, P):
        T = S.ctx.get("T", [])
        tr = json.dumps(T, default=repr, sort_keys=True)
        if not S.ctx.get("done"):
            return ("c16:hang", f"program {P['prog']} on {P['transport']}/{P['backend']} never finished: {tr} blocked={w.blocked_at_end} stderr={w.stderr.getvalue()[-500:]}"), tr
        want = P.get("want")
        if want is not None:
            if P["prog"] == "status":
                # the exec model name is part of remote_status and legitimately differs
                a = [x if x[0] != "status" else x[:2] for x in json.loads(tr)]
                b = [x if x[0] != "status" else x[:2] for x in json.loads(want)]
                same = a == b
            else:
                same = tr == want
            if not same:
                return ("c16:transcript-differs", f"program {P['prog']} on {P['transport']}/{P['backend']}:\n  got      {tr}\n  expected {want} (direct popen gateway)"), tr
        return None, tr


class CtlScn:
    """wait / kill / close_write through ProxyIO reach the proxied process"""

    @staticmethod
    def scenario(w, P):
        S = Session(w, "via", "thread")

        def main():
            gw = S.open()
            sub = S.worker_proc()
            ch = gw.remote_exec("channel.receive()")
            io = gw._io
            em = S.proc.execmodel
            res = {}
            if P["op"] == "kill":
                io.kill()
                em.sleep(0.5)
                res["sub_alive"] = sub.alive
                res["wait"] = io.wait()
            elif P["op"] == "close_write":
                io.close_write()
                em.sleep(20.0)
                res["sub_alive"] = sub.alive
                res["wait"] = io.wait()
            elif P["op"] == "wait":
                ch.send(None)
                gw.exit()
                res["wait"] = io.wait()
                res["sub_alive"] = sub.alive
            elif P["op"] == "wait-slow-exit":
                # the proxied process takes its time to go away (a non-daemon thread finishing its work):
                # wait() returns when the process has gone, however long that takes, like a direct popen
                ch.send(None)
                gw.remote_exec("em = channel.gateway.execmodel\ndef linger():\n    em.sleep(%r)\nem.start_nondaemon(linger)" % P["linger"]).waitclose(10)
                t0 = w.now
                gw.exit()
                try:
                    res["wait"] = io.wait()
                except BaseException as e:  # noqa: BLE001
                    res["wait"] = f"{type(e).__name__}: {e}"
                res["waited"] = round(w.now - t0, 2)
                res["sub_alive"] = sub.alive
            S.ctx["res"] = res
            S.ctx["done"] = True
            S.group.terminate(timeout=2.0)

        S.main(main)
        return S

    @staticmethod
    def oracle(w, S, P):
        if not S.ctx.get("done"):
            return ("c16:control-hang", f"{P} blocked={w.blocked_at_end} stderr={w.stderr.getvalue()[-400:]}"), 0
        r = S.ctx["res"]
        if r.get("sub_alive"):
            return ("c16:control-not-forwarded", f"ProxyIO.{P['op']}() did not reach the proxied process: {r}"), 0
        if not isinstance(r.get("wait"), int):
            return ("c16:control-wait", f"ProxyIO.wait() returned {r.get('wait')!r}"), 0
        return None, 1


class NestedScn:
    """a gateway proxied through a gateway that is itself proxied: same transcript, and
    exit / wait / kill requests still reach every process of the chain"""

    @staticmethod
    def scenario(w, P):
        S = Session(w, "popen", "thread")

        def main():
            from execnet.multi import Group

            S.group = g = Group(execmodel=S.proc.execmodel)
            g.makegateway("popen//id=m")
            g.makegateway("popen//via=m//id=b")
            gw = g.makegateway("popen//via=b//id=a")
            direct = g.makegateway("popen//id=d")
            T, T0 = [], []
            try:
                script(P["prog"], gw, T, 1)
                script(P["prog"], direct, T0, 1)
            except BaseException as e:  # noqa: BLE001
                T.append(("EXCEPTION", type(e).__name__, str(e)[:200]))
            S.ctx["T"], S.ctx["T0"] = T, T0
            if P.get("stuck"):
                gw.remote_exec("em = channel.gateway.execmodel\nwhile True:\n    try:\n        em.sleep(0.2)\n    except KeyboardInterrupt:\n        pass")
                S.proc.execmodel.sleep(0.5)
            w.exploring = bool(P.get("explore"))
            t0 = w.now
            try:
                g.terminate(timeout=1.0)
                S.ctx["term"] = "ok"
            except BaseException as e:  # noqa: BLE001
                S.ctx["term"] = f"{type(e).__name__}: {str(e)[:150]}"
            w.exploring = False
            S.ctx["elapsed"] = w.now - t0
            S.ctx["alive"] = [p.name for p in w.procs[1:] if p.alive]
            S.ctx["done"] = True

        S.main(main)
        return S

    @staticmethod
    def oracle(w, S, P):
        c = S.ctx
        out = (c.get("term"), tuple(c.get("alive", ())))
        if not c.get("done"):
            return ("c16:nested-hang", f"P={P} blocked={w.blocked_at_end} stderr={w.stderr.getvalue()[-500:]}"), out
        if json.dumps(c["T"], default=repr) != json.dumps(c["T0"], default=repr):
            return ("c16:transcript-differs", f"program {P['prog']} through two proxies: {c['T']} vs direct {c['T0']}"), out
        if c["term"] != "ok" or c["alive"] or c["elapsed"] > 3 * 4 * 1.0 + 0.5:
            return ("c16:control-not-forwarded", f"terminate of a nested proxy chain: result {c['term']}, {c['elapsed']} virtual s, processes still alive {c['alive']}"), out
        return None, out


SCENARIOS = {"eq": EqScn, "ctl": CtlScn, "nested": NestedScn}

REAL_CELL = r'''
import sys, json
sys.path.insert(0, "/repo/src"); sys.path.insert(0, "/verif")
import execnet
assert execnet.__file__.startswith("/repo/src")
from checks.c16_transports import script
transport, model, prog, size = sys.argv[1], sys.argv[2], sys.argv[3], int(sys.argv[4])
g = execnet.Group()
if transport == "popen":
    gw = g.makegateway("popen//execmodel=%s" % model)
elif transport == "python":
    gw = g.makegateway("popen//python=%s//execmodel=%s" % (sys.executable, model))
elif transport == "via":
    g.makegateway("popen//id=m")
    gw = g.makegateway("popen//via=m//execmodel=%s" % model)
else:
    g.makegateway("popen//id=m//execmodel=%s" % model)
    gw = g.makegateway("socket//installvia=m")
T = []
try:
    script(prog, gw, T, size)
except BaseException as e:
    T.append(("EXCEPTION", type(e).__name__, str(e)[:200]))
print(json.dumps(T, default=repr, sort_keys=True))
g.terminate(3)
'''


def real_cell(cell):
    transport, model, prog, size = cell
    env = dict(os.environ)
    env["PYTHONPATH"] = "/repo/src"
    try:
        r = subprocess.run([sys.executable, "-c", REAL_CELL, transport, model, prog, str(size)], capture_output=True, text=True, timeout=180, env=env, stdin=subprocess.DEVNULL, cwd="/tmp")
        out = r.stdout.strip().splitlines()[-1] if r.stdout.strip() else f"NO-OUTPUT rc={r.returncode} {r.stderr[-300:]}"
    except subprocess.TimeoutExpired:
        out = "TIMEOUT"
    return cell, out


def run(tier: str, only=None) -> int:
    rep = evidence.Report(PID, tier, "model_checking")
    rep.rule.append("deterministic channel programs (echo of all item types and sizes, sub-channel transfer both ways, remote error, callbacks on either side, remote close, status) x {popen, socket+installvia, popen+via} x {thread, main_thread_only, gevent-backend}: the transcript under every explored schedule / chunking must equal the direct popen transcript; ProxyIO control requests observed on the virtual process table; byte-identical transcripts on real processes")
    cap = 300000 if tier == "quick" else 5000000
    sizes = (1, 70000)
    for prog in PROGRAMS:
        for size in sizes:
            if size != 1 and prog not in ("echo", "types", "remote-callback"):
                continue
            base = explorer.run_once(EqScn.scenario, EqScn.oracle, {"transport": "popen", "backend": "thread", "prog": prog, "size": size}, [])
            want = base.outcome
            if base.violation is not None or "EXCEPTION" in want:
                rep.violation("c16:reference-program-failed", f"{prog} on popen: {base.violation or want}", {"check": PID, "sub": "ref"})
                continue
            for tr in ("popen", "socket", "via"):
                for be in ("thread", "main_thread_only", "gevent"):
                    name = f"eq/{prog}:{size}:{tr}:{be}"
                    if only and only not in name:
                        continue
                    if prog == "peer-dies" and be == "main_thread_only":
                        continue  # needs two concurrently running bodies
                    if tier == "quick" and be == "gevent" and (tr != "popen" or size != 1):
                        continue
                    if tier == "quick" and be == "main_thread_only" and size != 1:
                        continue
                    P = {"transport": tr, "backend": be, "prog": prog, "size": size, "want": want, "explore": True, "splits": tr == "socket"}
                    bounds = {"ps": 1, "env": 1, "free": 0} if tier == "quick" else {"ps": 1, "env": 1, "free": 1}
                    harness.run_exploration(rep, PID, name, EqScn, P, bounds, max_execs=cap, horizon=200000)
            rep.sample({"program": prog, "size": size, "popen transcript": want[:200]})
    # the cyclic collector running at any statement of the sending path (finalizers send from inside _send)
    for size in sizes:
        base = explorer.run_once(EqScn.scenario, EqScn.oracle, {"transport": "popen", "backend": "thread", "prog": "echo", "size": size}, [])
        for tr in ("popen", "socket", "via"):
            name = f"gc/echo:{size}:{tr}"
            if only and only not in name:
                continue
            P = {"transport": tr, "backend": "thread", "prog": "echo", "size": size, "want": base.outcome, "explore": True, "gc": True}
            harness.run_exploration(rep, PID, name, EqScn, P, {"ps": 0, "env": 1, "free": 0} if tier == "quick" else {"ps": 1, "env": 1, "free": 0}, max_execs=cap, horizon=200000)
    for op in ("kill", "close_write", "wait"):
        if only and "ctl" not in only:
            continue
        harness.run_exploration(rep, PID, f"ctl/{op}", CtlScn, {"op": op}, {"ps": 0, "free": 0}, max_execs=100)
    for linger in (0.5, 2.0, 4.0, 8.0, 30.0, 120.0):
        if only and "ctl" not in only:
            continue
        harness.run_exploration(rep, PID, f"ctl/wait-slow-exit:{linger}", CtlScn, {"op": "wait-slow-exit", "linger": linger}, {"ps": 0, "free": 0}, max_execs=100, horizon=200000)
    for prog, stuck in (("echo", False), ("subchannel", True), ("error", False)):
        if only and "nested" not in only:
            continue
        harness.run_exploration(rep, PID, f"nested/{prog}{':stuck' if stuck else ''}", NestedScn, {"prog": prog, "stuck": stuck, "explore": True}, {"ps": 1, "free": 0} if tier == "quick" else {"ps": 1, "free": 1}, max_execs=cap, horizon=200000)
    # real processes
    if not only or "real" in only:
        cells = []
        rsizes = (1, 65537, (1 << 20) + 1) if tier == "quick" else (0, 1, 65537, (1 << 20) + 1, 4 * 1024 * 1024)
        for prog in PROGRAMS:
            for size in rsizes:
                if size != rsizes[0] and prog not in ("echo", "types", "remote-callback"):
                    continue
                for tr in ("popen", "python", "socket", "via"):
                    for model in ("thread", "main_thread_only") + (("gevent",) if tier == "thorough" else ()):
                        if prog == "peer-dies" and model == "main_thread_only":
                            continue
                        if tier == "quick" and model == "main_thread_only" and size != rsizes[0]:
                            continue
                        if tier == "quick" and size > (1 << 20) and prog != "echo":
                            continue
                        cells.append((tr, model, prog, size))
        if tier == "quick":
            # the gevent exec model on every transport (small echo only)
            cells += [(tr, "gevent", "echo", rsizes[0]) for tr in ("popen", "python", "socket", "via")]
        res = pmap(lambda chunk: [real_cell(c) for c in chunk], [cells[i::16] for i in range(16)])
        flat = {c: o for chunk in res for c, o in chunk}
        for c, o in flat.items():
            ref = flat.get(("popen", "thread", c[2], c[3]))
            a, b = o, ref
            if c[2] == "status":
                try:
                    a = json.dumps([x if x[0] != "status" else x[:2] for x in json.loads(o)])
                    b = json.dumps([x if x[0] != "status" else x[:2] for x in json.loads(ref)])
                except ValueError:
                    pass
            if a != b or "EXCEPTION" in o or o.startswith(("NO-OUTPUT", "TIMEOUT")):
                again = real_cell(c)[1]
                again_ref = real_cell(("popen", "thread", c[2], c[3]))[1]
                if c[2] == "status":
                    try:
                        again = json.dumps([x if x[0] != "status" else x[:2] for x in json.loads(again)])
                        again_ref = json.dumps([x if x[0] != "status" else x[:2] for x in json.loads(again_ref)])
                    except ValueError:
                        pass
                if again != again_ref or "EXCEPTION" in again:
                    rep.violation(f"c16:real-transcript-differs:{c[0]}", f"real cell {c}: {again[:300]} vs popen {again_ref[:300]}", {"check": PID, "sub": "real", "cell": list(c)})
        rep.add_enumeration("real-process-cells", len(cells), len(cells))
    rep.assumptions += ["only deterministic programs are compared across transports (one user thread per side); racy programs are judged by the C02/C03/C07 oracles on every transport instead", "remote_status().execmodel legitimately differs between exec models and is masked", "ssh / vagrant transports and eventlet are not available in this sandbox"]
    return rep.finish()


def replay(path: str) -> int:
    d = json.load(open(path))
    if "choices" in d:
        return harness.replay_file(path, SCENARIOS)
    print(d)
    return 1
