"""C06 -- remote_exec runs exactly the given code with a live channel and clean stdio."""

from __future__ import annotations

import inspect
import os
import subprocess
import sys
import textwrap
import types

from engine import enumlib as E
from engine import evidence
from engine import explorer
from engine.parallel import pmap

from .common import Session

PID = "C06"


class Probe:
    """a channel stand-in for running shipped source locally in a fresh namespace"""

    def __init__(self):
        self.sent = []

    def send(self, x):
        self.sent.append(x)

    def receive(self, timeout=None):
        return "x"

    def close(self, *a):
        pass


def fresh_namespace_verdict(fn):
    """does the function's own source, executed in a fresh namespace as the remote side
    does, define and run the function without NameError?"""
    try:
        src = textwrap.dedent(inspect.getsource(fn))
    except (OSError, TypeError):
        return "no-source"
    name = fn.__name__
    ns = {"channel": Probe(), "__name__": "__channelexec__"}
    try:
        exec(compile(src + "\n", "<probe>", "exec"), ns)
        f = ns.get(name)
        if f is None:
            return "not-defined"
        sig = inspect.signature(f)
        params = list(sig.parameters.values())
        if not params or params[0].name != "channel" or params[0].kind not in (params[0].POSITIONAL_ONLY, params[0].POSITIONAL_OR_KEYWORD):
            return "wrong-signature"
        kwargs = {p.name: 1 for p in params[1:] if p.default is inspect._empty and p.kind in (p.POSITIONAL_OR_KEYWORD, p.KEYWORD_ONLY)}
        f(ns["channel"], **kwargs)
        return "runs"
    except NameError as e:
        return f"NameError: {e}"
    except BaseException as e:  # noqa: BLE001
        return f"other: {type(e).__name__}: {e}"


class AcceptScn:
    """every function shape: accepted ones are really executed remotely"""

    @staticmethod
    def scenario(w, P):
        S = Session(w, "popen", "thread")

        def main():
            from checks import aux_c06_funcs as F

            gw = S.open()
            pipe = S.worker_proc().pin
            out = {}
            for name, fn in sorted(F.ALL.items()):
                before = pipe.total
                try:
                    sig_kwargs = {}
                    try:
                        params = list(inspect.signature(fn).parameters.values())[1:]
                        sig_kwargs = {p.name: 1 for p in params if p.default is inspect._empty and p.kind in (p.POSITIONAL_OR_KEYWORD, p.KEYWORD_ONLY)}
                    except (TypeError, ValueError):
                        pass
                    ch = gw.remote_exec(fn, **sig_kwargs)
                except ValueError as e:
                    rej = ("ValueError", str(e)[:80])
                except BaseException as e:  # noqa: BLE001
                    rej = (type(e).__name__, str(e)[:80])
                else:
                    rej = None
                if rej is not None:
                    # measured after the exception (and whatever its traceback kept alive) is gone: nothing may
                    # have been sent for a call that was refused, and no channel id may have been used up
                    out[name] = ("rejected", rej[0], pipe.total - before, rej[1])
                    continue
                if name in ("raises_at",):
                    ch.send("x")
                try:
                    ch.waitclose(10)
                    out[name] = ("accepted", "ok")
                except ch.RemoteError as e:
                    out[name] = ("accepted", "RemoteError", str(e).strip().splitlines()[-1][:100])
                except BaseException as e:  # noqa: BLE001
                    out[name] = ("accepted", type(e).__name__)
            S.ctx["out"] = out
            S.ctx["done"] = True
            S.group.terminate(timeout=1.0)

        S.main(main)
        return S

    @staticmethod
    def oracle(w, S, P):
        return None, 0


SEM_SRC = """
import sys
channel.send(("name", __name__, "channel" in globals()))
x = channel.receive()
if x == "boom":
    raise IndexError("string-raise")   # line 6 of the dedented source
channel.send(("echo", x))
"""


class SemScn:
    @staticmethod
    def scenario(w, P):
        S = Session(w, P.get("transport", "popen"), P.get("backend", "thread"))

        def main():
            from checks import aux_c06_funcs as F
            import execnet

            gw = S.open()
            em = S.proc.execmodel
            res = {}
            # --- string source -------------------------------------------------
            for mode in ("ok", "boom"):
                ch = gw.remote_exec("    " + SEM_SRC.replace("\n", "\n    "))  # indented: dedent must fix it
                first = ch.receive(timeout=10)
                t0 = w.now
                try:
                    ch.waitclose(timeout=1.0)
                    open_while_blocked = False
                except ch.TimeoutError:
                    open_while_blocked = True
                ch.send(mode if mode == "boom" else "hello")
                try:
                    second = ch.receive(timeout=10)
                except ch.RemoteError as e:
                    second = ("RemoteError", str(e))
                try:
                    ch.waitclose(timeout=10)
                    closed = "closed"
                except ch.RemoteError as e:
                    closed = "RemoteError"
                res[f"string-{mode}"] = (first, open_while_blocked, second, closed, ch.isclosed())
            # kwargs with a string source are refused
            try:
                gw.remote_exec("pass", a=1)
                res["string-kwargs"] = "accepted"
            except TypeError:
                res["string-kwargs"] = "TypeError"
            # --- function with kwargs ---------------------------------------
            vals = P["kwvalues"]
            kw = {f"k{i}": v for i, v in enumerate(vals)}
            ch = gw.remote_exec(F.echo_kwargs, **kw)
            got = ch.receive(timeout=10)
            nm = ch.receive(timeout=10)
            ch.waitclose(10)
            res["kwargs"] = (all(E.same(got.get(k), v) for k, v in kw.items()) and len(got) == len(kw), nm)
            # --- function raising at statement i -------------------------
            src_lines, first_line = inspect.getsourcelines(F.raises_at)
            for i in range(4):
                ch = gw.remote_exec(F.raises_at, i=i)
                items = []
                err = None
                ch.send("x")
                try:
                    while True:
                        items.append(ch.receive(timeout=10))
                except ch.RemoteError as e:
                    err = str(e)
                except EOFError:
                    err = "EOF"
                want_line = first_line + [k for k, l in enumerate(src_lines) if f'ValueError("stmt{i}' in l][0]
                res[f"raise-{i}"] = (items, err, want_line, inspect.getsourcefile(F.raises_at))
            # --- the raising line is named however deep the call chain is --
            dl, dfirst = inspect.getsourcelines(F.deep_raise)
            dline = dfirst + [k for k, l in enumerate(dl) if "MARK-DEEP" in l][0]
            deep = []
            for depth in (0, 5, 45, 200):
                ch = gw.remote_exec(F.deep_raise, depth=depth)
                try:
                    ch.waitclose(10)
                    deep.append((depth, "no error"))
                except ch.RemoteError as e:
                    deep.append((depth, f'line {dline}, in down' in str(e) and "LookupError: deep-raise" in str(e)))
            res["deep-raise"] = deep
            # --- close from inside is refused ------------------------------
            ch = gw.remote_exec(F.close_inside)
            res["close-inside"] = ch.receive(timeout=10)
            ch.waitclose(10)
            # --- ... also after the initiating side closed its end first ---------
            rep = gw.newchannel()
            ch = gw.remote_exec("rep = channel.receive()\ntry:\n    channel.receive()\nexcept EOFError:\n    pass\nfor how in ('plain', 'error', 'file'):\n    try:\n        if how == 'plain':\n            channel.close()\n        elif how == 'error':\n            channel.close('some error')\n        else:\n            channel.makefile('w', proxyclose=True).close()\n        rep.send((how, 'accepted'))\n    except OSError as e:\n        rep.send((how, 'refused'))\nrep.close()")
            ch.send(rep)
            ch.close()
            got = []
            try:
                for _ in range(3):
                    got.append(rep.receive(timeout=10))
            except BaseException as e:  # noqa: BLE001
                got.append(("EXC", type(e).__name__))
            res["close-inside-after-peer-close"] = got
            # --- module ----------------------------------------------------------
            import checks.aux_c06_module_loader as L

            mod = L.load()
            for mode in ("ok", "raise"):
                ch = gw.remote_exec(mod)
                first = ch.receive(timeout=10)
                ch.send(mode)
                try:
                    second = ch.receive(timeout=10)
                except ch.RemoteError as e:
                    second = ("RemoteError", str(e))
                try:
                    ch.waitclose(10)
                except ch.RemoteError:
                    pass
                res[f"module-{mode}"] = (first, second, mod.__file__)
            # --- remote_exec is not affected by the string-coercion settings of the gateway ----
            rc = []
            for s1, s2 in ((True, True), (False, True), (False, False), (True, False)):
                gw.reconfigure(py2str_as_py3str=s1, py3str_as_py2str=s2)
                try:
                    # the verdicts are computed remotely and come back as ints: received *strings*
                    # are legitimately subject to the setting
                    ch = gw.remote_exec("channel.send(1 if type(__name__) is str and __name__ == '__channelexec__' else 0)")
                    a = ch.receive(timeout=10)
                    ch.waitclose(10)
                    ch = gw.remote_exec(F.check_kwargs, text="t€", data=b"d", n=1)
                    b = ch.receive(timeout=10)
                    ch.waitclose(10)
                    rc.append((s1, s2, a, b))
                except BaseException as e:  # noqa: BLE001
                    rc.append((s1, s2, "EXC", f"{type(e).__name__}: {str(e).strip().splitlines()[-1][:100]}"))
            res["after-reconfigure"] = rc
            S.ctx["res"] = res
            S.ctx["done"] = True
            S.group.terminate(timeout=1.0)

        S.main(main)
        return S

    @staticmethod
    def oracle(w, S, P):
        if not S.ctx.get("done"):
            return ("c06:semantics-hang", f"blocked={w.blocked_at_end} stderr={w.stderr.getvalue()[-1500:]}"), 0
        r = S.ctx["res"]

        def V(key, msg):
            return (f"c06:{key}", f"{msg}\n  transport={P.get('transport')} backend={P.get('backend')}"), 0

        for mode in ("ok", "boom"):
            first, openb, second, closed, isclosed = r[f"string-{mode}"]
            if first != ("name", "__channelexec__", True):
                return V("namespace", f"string source: __name__/channel binding reported {first}")
            if not openb:
                return V("auto-close", "channel closed although the remote code was still blocked")
            if not isclosed:
                return V("auto-close", "channel not closed after the remote code finished")
            if mode == "ok" and (second != ("echo", "hello") or closed != "closed"):
                return V("string-semantics", f"{second} {closed}")
            if mode == "boom":
                if second[0] != "RemoteError" or "IndexError" not in second[1] or "string-raise" not in second[1] or "line 6" not in second[1]:
                    return V("traceback-line", f"string source raising at line 6 of the dedented source: {second}")
        if r["string-kwargs"] != "TypeError":
            return V("string-kwargs", "kwargs with a source string were not refused with TypeError")
        if r["kwargs"] != (True, "__channelexec__"):
            return V("kwargs", f"keyword arguments did not arrive equal by value / __name__ wrong: {r['kwargs']}")
        for i in range(4):
            items, err, want_line, fname = r[f"raise-{i}"]
            want_items = {0: ["s0"], 1: ["s0", "s1"], 2: ["s0", "s1"], 3: ["s0", "s1", "s3"]}[i]
            if items != want_items:
                return V("function-semantics", f"raise at statement {i}: items {items}, expected {want_items}")
            if err in (None, "EOF") or f"stmt{i}" not in err or f'"{fname}", line {want_line}' not in err:
                return V("traceback-line", f"function raising at its statement {i}: traceback must name {fname} line {want_line}: {err}")
        for depth, ok in r["deep-raise"]:
            if ok is not True:
                return V("traceback-line", f"a function raising {depth} calls deep: the RemoteError does not name the raising line ({ok})")
        ci = r["close-inside"]
        if not (isinstance(ci, tuple) and ci[0] == "refused"):
            return V("close-inside", f"channel.close() from inside remote_exec was not refused: {ci}")
        for s1, s2, a, ok in r["after-reconfigure"]:
            if a != 1 or ok != 1:
                return V("reconfigure-affects-remote-exec", f"after gateway.reconfigure(py2str_as_py3str={s1}, py3str_as_py2str={s2}) remote_exec gave {a!r} / kwargs equal: {ok!r}")
        cip = r["close-inside-after-peer-close"]
        if cip != [("plain", "refused"), ("error", "refused"), ("file", "refused")]:
            return V("close-inside", f"after the initiating side closed its end, close() from inside the still running remote_exec: {cip}")
        for mode in ("ok", "raise"):
            first, second, mfile = r[f"module-{mode}"]
            if first != ("module", "__channelexec__"):
                return V("namespace", f"module source: {first}")
            if mode == "ok" and second != ("got", "ok"):
                return V("module-semantics", f"{second}")
            if mode == "raise" and (second[0] != "RemoteError" or "module-raise" not in second[1] or f'"{mfile}", line 5' not in second[1]):
                return V("traceback-line", f"module raising at its line 5: traceback must name {mfile} line 5: {second}")
        return None, len(r)


SCENARIOS = {"sem": SemScn, "accept": AcceptScn}

# ---------------------------------------------------------------------------
# stdio: real processes (OS boundary)
# ---------------------------------------------------------------------------
STDIO_CELL = r'''
import os, sys, json
sys.path.insert(0, "/repo/src")
import execnet
assert execnet.__file__.startswith("/repo/src")
transport, model, prog, size, pos = sys.argv[1:6]
size = int(size)
g = execnet.Group()
if transport == "popen":
    gw = g.makegateway("popen//execmodel=%s" % model)
elif transport == "python":
    gw = g.makegateway("popen//python=%s//execmodel=%s" % (sys.executable, model))
else:
    g.makegateway("popen//id=m")
    gw = g.makegateway("popen//via=m//execmodel=%s" % model)
W = {
 "none": "pass",
 "print": "print('x' * %d)" % size,
 "stdout": "import sys; sys.stdout.write('y' * %d); sys.stdout.flush()" % size,
 "fd1": "import os; os.write(1, b'z' * %d)" % size,
 "fd2": "import os; os.write(2, b'e' * %d)" % min(size, 100),
 "child": "import subprocess, sys; subprocess.call([sys.executable, '-c', 'import sys; sys.stdout.write(chr(113) * %d)'])" % size,
 # non-ASCII text on the worker's stdout (whatever its locale says), and readers of its standard input
 "print-uni": "print('\\u00e9\\u20ac\\U0001f600' * %d)" % size,
 "stdout-uni": "import sys; sys.stdout.write('\\u00e9\\u20ac' * %d); sys.stdout.flush()" % size,
 "fd0": "import os; assert os.read(0, 10) == b'', 'fd 0 is not empty'",
 "stdin-read": "import sys; assert sys.stdin.read() == '', 'sys.stdin is not empty'",
 "child-stdin": "import subprocess, sys; assert subprocess.run([sys.executable, '-c', 'import sys; sys.stdout.write(str(len(sys.stdin.buffer.read())))'], capture_output=True, timeout=15).stdout == b'0', 'a child process could read something from the inherited stdin'",
}[prog]
parts = ["channel.send(('a', 1))", "channel.send(('b', b'\\x00\\x01' * 3))", "channel.send(('c', channel.receive()))"]
parts.insert({"before": 0, "between": 1, "after": 3}[pos], W)
ch = gw.remote_exec("\n".join(parts))
out = []
try:
    out.append(ch.receive(20)); out.append(ch.receive(20)); ch.send("ping"); out.append(ch.receive(20)); ch.waitclose(20)
    out.append("closed")
except Exception as e:
    out.append("EXC %s %s" % (type(e).__name__, str(e)[:100]))
out.append(repr(gw).split()[2].rstrip(","))
c2 = gw.remote_exec("channel.send(7)")
try:
    out.append(c2.receive(20))
except Exception as e:
    out.append("EXC2 %s" % type(e).__name__)
g.terminate(2)
print(json.dumps(out, default=repr))
'''


STDIO_ENVS = {
    "default": {},
    "io-ascii": {"PYTHONIOENCODING": "ascii"},
    "c-locale": {"LC_ALL": "C", "LANG": "C", "PYTHONCOERCECLOCALE": "0", "PYTHONUTF8": "0"},
}


def stdio_cell(cell):
    transport, model, prog, size, pos = cell[:5]
    env = dict(os.environ)
    env["PYTHONPATH"] = "/repo/src"
    env.pop("EXECNET_DEBUG", None)
    env.update(STDIO_ENVS[cell[5] if len(cell) > 5 else "default"])
    try:
        r = subprocess.run([sys.executable, "-c", STDIO_CELL, transport, model, prog, str(size), pos], capture_output=True, text=True, timeout=120, env=env, stdin=subprocess.DEVNULL)
        line = r.stdout.strip().splitlines()[-1] if r.stdout.strip() else f"NO-OUTPUT rc={r.returncode} {r.stderr[-300:]}"
    except subprocess.TimeoutExpired:
        line = "TIMEOUT"
    return cell, line


def run(tier: str, only=None) -> int:
    rep = evidence.Report(PID, tier, "exploration")
    rep.rule.append("function shapes (parameters, defaults, body references, nesting, decoration, lambdas, methods) checked against a semantic oracle (the function's own source run in a fresh namespace); the three source forms x bodies raising at each statement, kwargs of all serialisable leaf types, auto-close, close-from-inside in a virtual session; stdio programs x sizes x positions x transports x exec models on real processes")
    from checks import aux_c06_funcs as F

    # (1) acceptance / rejection
    r = explorer.run_once(AcceptScn.scenario, AcceptScn.oracle, {}, [], horizon=2000000)
    out = None
    # the scenario's ctx is not returned by run_once: rerun inline to fetch it
    holder = {}

    def orc(w, S, P):
        holder["out"] = S.ctx.get("out")
        holder["done"] = S.ctx.get("done")
        holder["blocked"] = w.blocked_at_end
        holder["stderr"] = w.stderr.getvalue()[-800:]
        return None, 0

    explorer.run_once(AcceptScn.scenario, orc, {}, [], horizon=2000000)
    out = holder.get("out")
    if not holder.get("done"):
        rep.violation("c06:accept-hang", f"acceptance scenario did not finish: {holder}", {"check": PID, "sub": "accept"})
        out = out or {}
    n = 0
    for name, fn in sorted(F.ALL.items()):
        n += 1
        verdict = fresh_namespace_verdict(fn) if isinstance(fn, types.FunctionType) else "not-a-function"
        o = out.get(name)
        if o is None:
            continue
        is_lambda = getattr(fn, "__name__", "") == "<lambda>"
        if o[0] == "accepted":
            if verdict != "runs" or is_lambda or (isinstance(fn, types.FunctionType) and fn.__closure__):
                rep.violation("c06:impure-function-accepted", f"remote_exec accepted {name} although its source alone is not self-contained ({verdict}); remote result: {o[1:]}", {"check": PID, "sub": "accept", "function": name})
            elif o[1] != "ok":
                rep.violation("c06:accepted-function-failed", f"{name} was accepted but failed remotely: {o[1:]}", {"check": PID, "sub": "accept", "function": name})
        else:
            if o[1] != "ValueError":
                rep.violation("c06:rejected-with-wrong-exception", f"{name} was refused with {o[1]}: {o[3]}", {"check": PID, "sub": "accept", "function": name})
            if o[2] != 0:
                rep.violation("c06:rejected-after-sending", f"{name} was refused after {o[2]} bytes had been written to the connection", {"check": PID, "sub": "accept", "function": name})
            if verdict == "runs" and not is_lambda and isinstance(fn, types.FunctionType) and not fn.__closure__:
                rep.violation("c06:pure-function-rejected:" + name, f"{name} is self-contained (its source runs in a fresh namespace) but remote_exec refused it: {o[3]}", {"check": PID, "sub": "accept", "function": name})
    rep.add_enumeration("function-shapes", n, n)
    rep.sample({"function shapes": sorted(F.ALL)[:12]})
    # (2) semantics
    kwvalues = [v for v in E.LEAVES if not (type(v) is int and abs(v) >= 10**4299)] + [[1, (2, {"k": {3}})], {"a": [b"x"]}, frozenset([1, 2])]
    ns = 0
    for tr, be in (("popen", "thread"), ("popen", "main_thread_only"), ("socket", "thread"), ("via", "thread")):
        P = {"transport": tr, "backend": be, "kwvalues": kwvalues}
        r = explorer.run_once(SemScn.scenario, SemScn.oracle, P, [], horizon=2000000)
        ns += 1
        if r.violation is not None:
            rep.violation(r.violation[0], r.violation[1], {"check": PID, "sub": "sem", "transport": tr, "backend": be})
    rep.add_enumeration("semantics-sessions", ns * 14, ns * 14, {"kwargs_values": len(kwvalues)})
    # (3) stdio on real processes
    cells = []
    sizes = (1, 65537) if tier == "quick" else (0, 1, 10, 65537, 1048576)
    for transport in ("popen", "python", "via"):
        for model in ("thread", "main_thread_only"):
            for prog in ("none", "print", "stdout", "fd1", "fd2", "child"):
                for size in sizes:
                    for pos in ("before", "between", "after"):
                        if prog == "none" and (size != sizes[0] or pos != "before"):
                            continue
                        if tier == "quick" and (transport != "popen" and (model != "thread" or pos != "between")):
                            continue
                        if tier == "quick" and model == "main_thread_only" and pos != "before":
                            continue
                        cells.append((transport, model, prog, size, pos))
    for transport in ("popen", "python", "via"):
        for model in ("thread", "main_thread_only"):
            if model == "main_thread_only" and (transport != "popen" and tier == "quick"):
                continue
            for prog in ("print-uni", "stdout-uni"):
                for envname in STDIO_ENVS:
                    cells.append((transport, model, prog, 3, "between", envname))
            for prog in ("fd0", "stdin-read", "child-stdin"):
                cells.append((transport, model, prog, 1, "between", "default"))
    res = pmap(lambda chunk: [stdio_cell(c) for c in chunk], [cells[i::16] for i in range(16)])
    flat = [x for chunk in res for x in chunk]
    base = {}
    for cell, line in flat:
        if cell[2] == "none":
            base[(cell[0], cell[1])] = line
    want = '[["a", 1], ["b", "b\'\\\\x00\\\\x01\\\\x00\\\\x01\\\\x00\\\\x01\'"], ["c", "ping"], "closed", "receive-live", 7]'
    for cell, line in flat:
        ref = base.get((cell[0], cell[1]))
        if line != ref or line != want:
            # re-run once: real scheduling is not controlled
            again = stdio_cell(cell)[1]
            if again != want:
                rep.violation("c06:stdio-" + cell[2], f"cell {cell}: transcript {line!r} / {again!r}, expected {want!r}", {"check": PID, "sub": "stdio", "cell": list(cell)})
    rep.add_enumeration("stdio-real-cells", len(cells), len(cells), {"transports": 3})
    rep.sample({"stdio cell": list(cells[len(cells) // 2])})
    rep.assumptions += ["the stdio clause is about the OS boundary (fd redirection) and is decided on real interpreters over a completely enumerated configuration set", "acceptance oracle: a function is shippable iff its own dedented source defines and runs it in a fresh namespace without NameError"]
    return rep.finish()


def replay(path: str) -> int:
    import json

    print(json.load(open(path)))
    return 1
