# a pure module for remote_exec(module): line numbers matter
channel.send(("module", __name__))  # noqa: F821
x = channel.receive()  # noqa: F821
if x == "raise":
    raise KeyError("module-raise")  # MARK-LINE-5
channel.send(("got", x))  # noqa: F821
