"""C17 -- RSync makes every target tree equal to the source, minimally.

Both ends of the gateway run in the virtual world (deterministic, no process start-up);
all file operations are real, in a fresh directory per case.
"""

from __future__ import annotations

import hashlib
import itertools
import os
import shutil
import stat
import tempfile

from engine import evidence
from engine import explorer
from engine.parallel import pmap

from .common import Session

PID = "C17"
T1, T2 = 1_600_000_000.25, 1_650_000_000.5
BIG = bytes(range(256)) * 800  # 200 KiB
CONTENTS = {"empty": b"", "a": b"a", "bin": b"\x00\xff\x01", "big": BIG, "a2": b"b", "other": b"zzzz"}


# ---- tree DSL -----------------------------------------------------------------
def F(content="a", mode=0o644, mtime=T1):
    return ("file", content, mode, mtime)


def D(mode=0o755):
    return ("dir", mode)


def L(text):
    return ("link", text)


def build(root: str, tree: dict, abs_root: str | None = None) -> None:
    """materialise tree under root; link texts may contain {ROOT}"""
    os.makedirs(root, exist_ok=True)
    dirs = []
    for rel in sorted(tree, key=lambda p: (p.count("/"), p)):
        e = tree[rel]
        path = os.path.join(root, rel)
        os.makedirs(os.path.dirname(path), exist_ok=True)
        if e[0] == "file":
            with open(path, "wb") as f:
                f.write(CONTENTS[e[1]])
            os.chmod(path, e[2])
            os.utime(path, (e[3], e[3]))
        elif e[0] == "dir":
            os.makedirs(path, exist_ok=True)
            dirs.append((path, e[1]))
        else:
            os.symlink(e[1].replace("{ROOT}", abs_root or root), path)
    for path, mode in reversed(dirs):
        os.chmod(path, mode)


def snapshot(root: str) -> dict:
    out = {}
    for dirpath, dirnames, filenames in os.walk(root):
        for name in list(dirnames) + filenames:
            p = os.path.join(dirpath, name)
            rel = os.path.relpath(p, root)
            st = os.lstat(p)
            if stat.S_ISLNK(st.st_mode):
                out[rel] = ("link", os.readlink(p))
            elif stat.S_ISDIR(st.st_mode):
                out[rel] = ("dir", stat.S_IMODE(st.st_mode))
            else:
                with open(p, "rb") as f:
                    h = hashlib.md5(f.read()).hexdigest()
                out[rel] = ("file", h, stat.S_IMODE(st.st_mode), st.st_mtime, st.st_size)
        # os.walk does not descend into symlinked dirs (followlinks=False): what we want
    return out


def make_writable(root: str) -> None:
    for dirpath, dirnames, _ in os.walk(root):
        for d in dirnames:
            p = os.path.join(dirpath, d)
            if not os.path.islink(p):
                os.chmod(p, 0o755)


def expected_link_ok(src_root, dst_root, rel, src_text, dst_entry):
    """the link at dst/rel must denote the place corresponding to what src/rel denotes"""
    if dst_entry is None or dst_entry[0] != "link":
        return f"{rel}: expected a symlink, found {dst_entry}"
    dst_text = dst_entry[1]
    sdir = os.path.dirname(os.path.join(src_root, rel))
    ddir = os.path.dirname(os.path.join(dst_root, rel))
    a = os.path.normpath(os.path.join(sdir, src_text))  # join ignores sdir for absolute texts
    inside = a == src_root or a.startswith(src_root + os.sep)
    if inside:
        want = os.path.normpath(os.path.join(dst_root, os.path.relpath(a, src_root)))
        got = os.path.normpath(os.path.join(ddir, dst_text))
        if got != want:
            return f"symlink {rel} -> {src_text!r} denotes {os.path.relpath(a, src_root)!r} inside the source tree; at the target it is -> {dst_text!r} which denotes {got!r}, expected {want!r}"
    elif dst_text != src_text:
        return f"symlink {rel} -> {src_text!r} (outside the tree) must keep its text, target has {dst_text!r}"
    return None


def compare(src_root, dst_root, prior: dict, delete: bool):
    """reference tree model: returns None or a message"""
    s = snapshot(src_root)
    d = snapshot(dst_root)
    for rel, e in s.items():
        g = d.get(rel)
        if e[0] == "file":
            if g is None or g[0] != "file":
                return ("missing", f"{rel}: source file, target has {g}")
            if g[1] != e[1] or g[4] != e[4]:
                return ("content", f"{rel}: content differs at the target")
            if g[2] != e[2]:
                return ("file-mode", f"{rel}: permission bits {oct(g[2])} at the target, source has {oct(e[2])}")
            if g[3] != e[3]:
                return ("mtime", f"{rel}: mtime {g[3]!r} at the target, source has {e[3]!r}")
        elif e[0] == "dir":
            if g is None or g[0] != "dir":
                return ("missing", f"{rel}: source directory, target has {g}")
            if g[1] != e[1] | 0o700:
                return ("dir-mode", f"{rel}: directory mode {oct(g[1])} at the target, expected {oct(e[1] | 0o700)}")
        else:
            m = expected_link_ok(src_root, dst_root, rel, e[1], g)
            if m:
                return ("symlink", m)
    extra = {rel: g for rel, g in d.items() if rel not in s}
    if delete:
        if extra:
            return ("delete", f"delete=True but the target still has {sorted(extra)}")
    else:
        for rel, p in prior.items():
            if rel in s or any(rel.startswith(x + "/") for x in s if s[x][0] != "dir") or any(x.startswith(rel + "/") for x in s):
                continue  # replaced by / below / above a source entry
            if d.get(rel) != p:
                return ("unrelated-touched", f"unrelated prior entry {rel} changed from {p} to {d.get(rel)}")
    return None


# ---- one sync in the virtual world ---------------------------------------------
class SyncScn:
    @staticmethod
    def scenario(w, P):
        S = Session(w, "popen", "thread")

        def main():
            import execnet

            gws = []
            from execnet.multi import Group

            S.group = g = Group(execmodel=S.proc.execmodel)
            for i in range(len(P["dests"])):
                gws.append(g.makegateway(f"popen//id=t{i}"))
            reports = []

            class R(execnet.RSync):
                def _report_send_file(self, gateway, modified_rel_path):
                    reports.append(modified_rel_path)

            oldcwd = os.getcwd()
            try:
                os.chdir(P["cwd"])
                src = P["src"] if not P.get("rel_src") else os.path.relpath(P["src"], P["cwd"])
                r = R(src, verbose=False)
                fin = []
                for gw, dest in zip(gws, P["dests"]):
                    r.add_target(gw, dest, finishedcallback=lambda dest=dest: fin.append(dest), delete=P["delete"]) if P["delete"] else r.add_target(gw, dest, finishedcallback=lambda dest=dest: fin.append(dest))
                try:
                    r.send()
                    S.ctx["send"] = "ok"
                except BaseException as e:  # noqa: BLE001
                    S.ctx["send"] = f"{type(e).__name__}: {str(e)[:300]}"
            finally:
                os.chdir(oldcwd)
            S.ctx["reports"] = reports
            S.ctx["finished"] = fin
            payload = 0
            for c in w.children:
                payload += sum(n for n in c.proc.pin.writes if n > 100000)
            S.ctx["large_writes"] = payload
            S.ctx["done"] = True
            g.terminate(timeout=1.0)

        S.main(main)
        return S

    @staticmethod
    def oracle(w, S, P):
        HOLD.clear()
        HOLD.update(S.ctx)
        HOLD["blocked"] = w.blocked_at_end
        HOLD["stderr"] = w.stderr.getvalue()[-600:]
        return None, 0


HOLD: dict = {}


def do_sync(src, dests, delete, cwd, rel_src=False):
    P = {"src": src, "dests": dests, "delete": delete, "cwd": cwd, "rel_src": rel_src}
    explorer.run_once(SyncScn.scenario, SyncScn.oracle, P, [], horizon=3000000, want_fp=False)
    return dict(HOLD)


# ---- case enumeration ------------------------------------------------------------
BASE = {"t": F("a"), "sub": D(), "sub/t": F("bin")}


def source_variants(tier):
    v = []
    for c in ("empty", "a", "bin", "big"):
        for m in (0o644, 0o600, 0o755, 0o444):
            v.append(("f-%s-%o" % (c, m), {"e": F(c, m, T1)}))
    v.append(("f-t2", {"e": F("a", 0o644, T2)}))
    v.append(("f-sub", {"sub/e": F("bin", 0o600, T2)}))
    for m in (0o755, 0o700, 0o555):
        v.append(("d-%o" % m, {"e": D(m), "e/in": F("a")}))
    v.append(("d-empty", {"e": D(0o755)}))
    v.append(("d-name", {"b c": D(0o755), "b c/é": F("bin", 0o640)}))
    links = {"rel": "t", "rel-sub": "sub/t", "abs-in": "{ROOT}/sub/t", "dangling": "nope", "abs-out": "/etc/hostname", "dotdot": "..", "rel-up-out": "../../x", "abs-root": "{ROOT}"}
    for n, text in links.items():
        v.append((f"l-{n}", {"e": L(text)}))
    v.append(("l-sub-rel", {"sub/e": L("t")}))
    v.append(("l-sub-up", {"sub/e": L("../t")}))
    v.append(("l-sub-abs", {"sub/e": L("{ROOT}/t")}))
    v.append(("l-dirlink", {"e": L("sub")}))
    # names that begin with a dot (hidden files, '..data'-style directories) as entries and as link targets
    v.append(("f-dotname", {".hidden": F("a", 0o600, T1)}))
    v.append(("d-dotname", {".config": D(0o755), ".config/settings": F("bin")}))
    v.append(("d-dotdotname", {"..data": D(0o755), "..data/value": F("a")}))
    v.append(("l-abs-dotfile", {"e": L("{ROOT}/.hidden"), ".hidden": F("a")}))
    v.append(("l-abs-dotdir", {"e": L("{ROOT}/.config/settings"), ".config": D(), ".config/settings": F("bin")}))
    v.append(("l-abs-dotdotname", {"e": L("{ROOT}/..data/value"), "..data": D(), "..data/value": F("a")}))
    v.append(("l-rel-dotfile", {"e": L(".hidden"), ".hidden": F("a")}))
    v.append(("l-sub-abs-dot", {"sub/e": L("{ROOT}/.hidden"), ".hidden": F("a")}))
    return v


def prior_variants(srcname, srce):
    """prior states of the entry under test at the target"""
    key = next(iter(srce))
    e = srce[key]
    out = [("absent", {})]
    if e[0] == "file":
        c, m, t = e[1], e[2], e[3]
        # full factorial over what the receiver's decision table looks at: content (same / other
        # of the same size / other size) x mtime (same / other) x mode (same / other); the cells
        # "same size, same mtime, other content" are rsync's quick-check blind spot and left out
        t_other = T2 if t == T1 else T1
        m_other = 0o640 if m != 0o640 else 0o600
        same_size_other = {"a": "a2", "a2": "a"}.get(c)
        for cname, cc in (("same", c), ("samesize", same_size_other), ("othersize", "other" if c != "other" else "a")):
            if cc is None:
                continue
            for tname, tt in (("t=", t), ("t!", t_other)):
                for mname, mm in (("m=", m), ("m!", m_other)):
                    if cname == "samesize" and tname == "t=":
                        continue
                    name = {("same", "t=", "m="): "identical", ("same", "t!", "m="): "other-mtime", ("same", "t=", "m!"): "mode-only"}.get((cname, tname, mname), f"{cname}-{tname}-{mname}")
                    out.append((name, {key: F(cc, mm, tt)}))
        out.append(("is-dir", {key: D(), key + "/x": F("a")}))
        out.append(("is-link", {key: L("/etc")}))
        out.append(("readonly-identical", {key: F(c, 0o444, t)}))
    elif e[0] == "dir":
        out.append(("identical", {k: v for k, v in srce.items()}))
        out.append(("is-file", {key: F("a")}))
        out.append(("is-link", {key: L("/etc")}))
        out.append(("other-mode-with-extra", {key: D(0o711), key + "/extra": F("bin")}))
    else:
        out.append(("identical", {key: e}))
        out.append(("other-link", {key: L("/nowhere")}))
        out.append(("is-file", {key: F("a")}))
        out.append(("is-nonempty-dir", {key: D(), key + "/x": F("a")}))
    return out


def run_case(case):
    """returns list of (key, message)"""
    srcname, srce, priorname, prior, delete, cwdkind, ntargets, follow, extra = case[:9]
    prior2 = case[9] if len(case) > 9 else None  # (name, tree) for the second target, None = same as first
    tmp = tempfile.mkdtemp(prefix="c17-", dir="/dev/shm" if os.path.isdir("/dev/shm") else None)
    tmp = os.path.realpath(tmp)
    bad = []
    try:
        src = os.path.join(tmp, "src")
        tree = dict(BASE)
        tree.update(srce)
        build(src, tree, src)
        dests = []
        for i in range(ntargets):
            d = os.path.join(tmp, f"dst{i}")
            pn, pt = (priorname, prior) if i == 0 or prior2 is None else prior2
            ptree = dict(BASE) if pn != "absent" or extra else {}
            ptree.update(pt)
            if extra:
                ptree["unrelated"] = F("bin", 0o640, T2)
                ptree["sub/unrelated2"] = F("a", 0o600, T1)
                # leftovers of every kind: links to directories (inside / outside), to files, dangling; a tree
                ptree["unrelated-dirlink-abs"] = L("/etc")
                ptree["unrelated-dirlink-rel"] = L("sub")
                ptree["unrelated-filelink"] = L("t")
                ptree["unrelated-dangling"] = L("nowhere/at/all")
                ptree["unrelated-dir"] = D(0o750)
                ptree["unrelated-dir/inner"] = F("a", 0o600, T2)
                ptree["sub/unrelated-dirlink-up"] = L("..")
            if ptree or i == 0:
                build(d, {k: (L(v[1].replace("{ROOT}", src)) if v[0] == "link" else v) for k, v in ptree.items()}, d)
            dests.append(d)
        outside = os.path.join(tmp, "elsewhere")
        os.makedirs(outside)
        cwd = {"outside": outside, "root": src, "subdir": os.path.join(src, "sub")}[cwdkind]
        priors = [snapshot(d) if os.path.isdir(d) else {} for d in dests]
        res = do_sync(src, dests, delete, cwd, rel_src=(cwdkind != "outside"))
        ident = f"src={srcname} prior={priorname}{'+' + prior2[0] if prior2 else ''} delete={delete} cwd={cwdkind} targets={ntargets} extra={extra}"
        if not res.get("done") or res.get("send") != "ok":
            bad.append(("send-failed", f"[{ident}] RSync.send(): {res.get('send')} done={res.get('done')} blocked={res.get('blocked')} stderr={res.get('stderr')}"))
            return bad
        if sorted(res.get("finished", [])) != sorted(dests):
            bad.append(("finished-callback", f"[{ident}] finished callbacks: {res.get('finished')}"))
        for d, p in zip(dests, priors):
            m = compare(src, d, p, delete)
            if m:
                bad.append((m[0] + (":" + srcname if m[0] == "symlink" else ""), f"[{ident}] {m[1]}"))
                return bad
        if follow == "resync":
            before = [{k: os.lstat(os.path.join(d, k)) for k in snapshot(d)} for d in dests]
            res2 = do_sync(src, dests, delete, cwd, rel_src=(cwdkind != "outside"))
            if res2.get("send") != "ok":
                bad.append(("send-failed", f"[{ident}] re-sync: {res2.get('send')}"))
                return bad
            if res2["reports"]:
                bad.append(("resync-transfers", f"[{ident}] re-sync of an unchanged tree reported sending {res2['reports']}"))
            if res2["large_writes"] > 0 and "big" in srcname:
                bad.append(("resync-transfers", f"[{ident}] re-sync of an unchanged tree wrote {res2['large_writes']} payload bytes"))
            for d, b in zip(dests, before):
                for k, st0 in b.items():
                    st1 = os.lstat(os.path.join(d, k))
                    if stat.S_ISLNK(st0.st_mode):
                        if os.readlink(os.path.join(d, k)) is None:
                            pass
                        continue
                    if (st0.st_mode, st0.st_mtime, st0.st_size) != (st1.st_mode, st1.st_mtime, st1.st_size) and not stat.S_ISDIR(st0.st_mode):
                        bad.append(("resync-changes", f"[{ident}] re-sync of an unchanged tree changed {k}: {oct(st0.st_mode)},{st0.st_mtime} -> {oct(st1.st_mode)},{st1.st_mtime}"))
                        return bad
                m = compare(src, d, {}, delete)
                if m:
                    bad.append((m[0] + "-after-resync", f"[{ident}] after re-sync: {m[1]}"))
        elif follow.startswith("modify"):
            key = next(iter(srce))
            p = os.path.join(src, key)
            kind = follow.split("-", 1)[1]
            make_writable(src)
            if kind == "content" and os.path.isfile(p) and not os.path.islink(p):
                os.chmod(p, 0o644)
                with open(p, "wb") as f:
                    f.write(b"changed!")
                os.utime(p, (T2 + 5, T2 + 5))
            elif kind == "samelen" and os.path.isfile(p) and not os.path.islink(p):
                n = os.path.getsize(p)
                os.chmod(p, 0o644)
                with open(p, "wb") as f:
                    f.write(b"#" * n)
                os.chmod(p, 0o755 if stat.S_IMODE(os.lstat(p).st_mode) != 0o755 else 0o600)
                os.utime(p, (T2 + 9, T2 + 9))
            elif kind == "mode" and os.path.isfile(p) and not os.path.islink(p):
                os.chmod(p, 0o600 if stat.S_IMODE(os.lstat(p).st_mode) != 0o600 else 0o444)
            elif kind == "kind":
                if os.path.islink(p) or os.path.isfile(p):
                    os.unlink(p)
                    os.makedirs(p)
                    with open(os.path.join(p, "n"), "wb") as f:
                        f.write(b"n")
                else:
                    shutil.rmtree(p)
                    os.symlink("t", p)
            else:
                return bad
            priors2 = [snapshot(d) for d in dests]
            res2 = do_sync(src, dests, delete, cwd, rel_src=(cwdkind != "outside"))
            if res2.get("send") != "ok":
                bad.append(("send-failed", f"[{ident} then {follow}] re-sync: {res2.get('send')}"))
                return bad
            for d, pr in zip(dests, priors2):
                m = compare(src, d, pr, delete)
                if m:
                    bad.append((m[0] + "-after-" + follow, f"[{ident}] after {follow} and re-sync: {m[1]}"))
                    return bad
    finally:
        make_writable(tmp)
        shutil.rmtree(tmp, ignore_errors=True)
    return bad


def cases(tier):
    out = []
    for srcname, srce in source_variants(tier):
        for priorname, prior in prior_variants(srcname, srce):
            for delete in (False, True):
                for cwdkind in ("outside", "root", "subdir"):
                    for follow in ("none", "resync", "modify-content", "modify-mode", "modify-samelen", "modify-kind"):
                        for ntargets in (1, 2):
                            for extra in (False, True):
                                if tier == "quick":
                                    # pairwise-style thinning that keeps every value of every factor with every source variant
                                    h = hash((srcname, priorname, delete, cwdkind, follow, ntargets, extra)) % 3
                                    keep = h == 0 or ((priorname in ("absent", "mode-only", "identical") or priorname.startswith(("samesize", "same-", "othersize"))) and follow in ("none", "resync") and ntargets == 1 and not extra and cwdkind != "subdir" or (srcname.startswith("l-") and priorname == "absent" and follow == "none" and ntargets == 1 and not extra))
                                    if not keep:
                                        continue
                                elif ntargets == 2 and (extra or follow not in ("none", "resync")):
                                    continue
                                if follow.startswith("modify") and srcname.startswith("l-") and follow != "modify-kind":
                                    continue
                                if follow in ("modify-content", "modify-mode", "modify-samelen") and not srcname.startswith("f-"):
                                    continue
                                out.append((srcname, srce, priorname, prior, delete, cwdkind, ntargets, follow, extra))
        # several targets whose prior states differ (the decision per target must not leak into another)
        pv = prior_variants(srcname, srce)
        for (n1, p1), (n2, p2) in __import__("itertools").permutations(pv, 2):
            if tier == "quick" and not ({n1, n2} & {"absent", "other-mtime", "identical"} or srcname.startswith("d-")):
                continue
            for delete in (False, True):
                if tier == "quick" and delete and hash((srcname, n1, n2)) % 3:
                    continue
                out.append((srcname, srce, n1, p1, delete, "outside", 2, "none", False, (n2, p2)))
    return out


def run_chunk(chunk):
    from engine import vworld

    res = []
    for c in chunk:
        try:
            res.extend(run_case(c))
        except vworld.InternalError:
            raise
        except BaseException as e:  # noqa: BLE001
            import traceback

            res.append(("harness-error", f"{c[0]} {c[2]}: {type(e).__name__}: {e}\n{traceback.format_exc()[-800:]}"))
    return len(chunk), res


def run(tier: str, only=None) -> int:
    rep = evidence.Report(PID, tier, "exploration")
    rep.rule.append("source entry variants (files: 4 contents x 4 modes, mtimes; dirs: modes, names with space / non-ASCII; symlinks: relative, into a subdir, absolute inside, dangling, absolute outside, '..', upward, from a subdir) x prior target states (absent, identical, other mtime, other size, same size other content, mode only, other kind, read-only) x delete x working directory (outside / source root / source subdir) x 1-2 targets x follow-up (none / re-sync unchanged / modify content, mode or kind then re-sync) x unrelated extra entries, against a reference tree model")
    cs = cases(tier)
    if only:
        cs = [c for c in cs if only in c[0] or only in c[2]]
    res = pmap(run_chunk, [cs[i::64] for i in range(64)])
    n = sum(r[0] for r in res)
    rep.add_enumeration("sync-cases", n, n, {"source_variants": len(source_variants(tier)), "cases": len(cs)})
    rep.sample({"case": [str(x) for x in cs[len(cs) // 3][:1] + cs[len(cs) // 3][2:3] + cs[len(cs) // 3][4:]]})
    seen = {}
    for _, bads in res:
        for key, msg in bads:
            if key == "harness-error":
                rep.internal.append(msg)
                continue
            seen.setdefault(key, []).append(msg)
    for key, msgs in sorted(seen.items()):
        msgs.sort(key=len)
        rep.violation(f"c17:{key}", f"{len(msgs)} cases, e.g. {msgs[0]}", {"check": PID, "sub": key, "examples": msgs[:5]})
    rep.assumptions += [
        "directory permission bits are compared with source | 0o700 (the documented writability guarantee); directory mtimes are not compared",
        "the prior state 'same size, same mtime, different content' is excluded: size+mtime equality is rsync's quick-check premise",
        "file mtimes are compared as st_mtime floats (the value the protocol carries)",
        "the rsync protocol runs on the default schedule of a virtual gateway; file operations are real",
    ]
    return rep.finish()


def replay(path: str) -> int:
    import json

    d = json.load(open(path))
    for m in d.get("examples", []):
        print(m)
    return 1
