"""C13 -- loading untrusted bytes is total, typed-error-only and side-effect free."""

from __future__ import annotations

import itertools
import os
import resource
import sys

from engine import enumlib as E
from engine import evidence
from engine import refcodec as R
from engine.parallel import pmap

from .c01_roundtrip import srepr

PID = "C13"

ALPHABET = [v for v in R.OPCODES.values()] + [b"Z", b"\x00", b"\x01", b"\x02", b"\x03", b"\x7f", b"\x80", b"\xff", b"1", b"-"]
SUPPORTED = (type(None), bool, int, float, complex, bytes, str, list, tuple, dict, set, frozenset)
PREALLOC_LIMIT = 4096

_AUDIT = {"on": False, "events": []}
_AUDIT_INSTALLED = []


def _hook(event, args):
    if _AUDIT["on"] and event in ("exec", "compile", "import", "open", "subprocess.Popen", "os.system", "os.exec", "os.spawn", "os.posix_spawn", "socket.connect", "ctypes.dlopen"):
        _AUDIT["events"].append((event, repr(args)[:80]))


def install_audit():
    if not _AUDIT_INSTALLED:
        sys.addaudithook(_hook)
        _AUDIT_INSTALLED.append(1)


class CountingStream:
    """records whether a read ran into the end of the input"""

    def __init__(self, data: bytes) -> None:
        self.data = data
        self.pos = 0
        self.hit_end = False

    def read(self, n: int = -1) -> bytes:
        if n is None or n < 0:
            out = self.data[self.pos :]
            self.pos = len(self.data)
            self.hit_end = True
            return out
        out = self.data[self.pos : self.pos + n]
        self.pos += len(out)
        if len(out) < n or (n > 0 and self.pos >= len(self.data) and len(out) < n):
            self.hit_end = True
        if n > 0 and not out:
            self.hit_end = True
        return out


def only_supported(v, depth=0) -> bool:
    if type(v) not in SUPPORTED:
        return False
    if depth > 200:
        return True
    if type(v) in (list, tuple, set, frozenset):
        return all(only_supported(x, depth + 1) for x in v)
    if type(v) is dict:
        return all(only_supported(k, depth + 1) and only_supported(x, depth + 1) for k, x in v.items())
    return True


def classify(data: bytes):
    """returns None or (key, detail) for one input"""
    import execnet
    from execnet import gateway_base as gb

    # the reference verdict first: it never allocates from an unjustified length field
    try:
        want = ("value", R.decode(data, prealloc_limit=PREALLOC_LIMIT))
    except R.RefPrealloc as e:
        return ("prealloc", str(e))
    except R.RefEOF:
        want = ("eof", None)
    except R.RefError as e:
        want = ("error", str(e))
    except ValueError as e:
        if "4300" in str(e) or "Exceeds the limit" in str(e):
            return ("bigint-limit", "")
        raise
    nchan = len(CHANNELS_CREATED)
    stream = CountingStream(data)
    _AUDIT["events"].clear()
    _AUDIT["on"] = True
    try:
        try:
            got = ("value", execnet.load(stream))
        finally:
            _AUDIT["on"] = False
    except gb.DataFormatError as e:
        got = ("error", type(e).__name__)
    except EOFError:
        got = ("eof", None)
    except MemoryError:
        return ("memory-error", "MemoryError outside the known pre-allocation pattern")
    except BaseException as e:  # noqa: BLE001
        if isinstance(e, ValueError) and ("4300" in str(e) or "Exceeds the limit" in str(e)):
            return ("bigint-limit", "")
        return ("untyped-exception", f"{type(e).__name__}: {str(e)[:100]}")
    if _AUDIT["events"]:
        return ("side-effect", f"audit events during load: {_AUDIT['events'][:3]}")
    if len(CHANNELS_CREATED) != nchan:
        return ("channel-created", "a Channel object was created outside a gateway")
    if got[0] == "eof":
        if not stream.hit_end:
            return ("eof-without-end-of-input", "EOFError although no read hit the end of the input")
        return None  # accepted whenever the implementation actually ran off the end
    if got[0] == "error":
        return None
    # a value was returned
    v = got[1]
    if not only_supported(v):
        return ("foreign-type", f"returned {srepr(v, 80)}")
    if want[0] != "value":
        # beyond the property's letter (a value of supported types was returned): counted, not a violation
        return ("info-lenient-acceptance", f"returned {srepr(v, 80)} although the strict reference rejects the input ({want[0]}: {want[1]})")
    if not E.same(v, want[1]):
        return ("wrong-value", f"returned {srepr(v, 80)}, reference decoder {srepr(want[1], 80)}")
    # loads() must agree with load()
    try:
        v2 = execnet.loads(data)
        if not E.same(v2, v):
            return ("loads-load-differ", "")
    except BaseException as e:  # noqa: BLE001
        return ("loads-load-differ", type(e).__name__)
    return None


CHANNELS_CREATED: list = []


DEEP_SHAPES = ("tuple", "list", "set1", "set2", "dictkey", "dictkey2", "frozenset-nest", "tuple-in-frozenset")
DEEP_CELL = r'''
import sys, struct
sys.path.insert(0, "/repo/src")
import execnet
assert execnet.__file__.startswith("/repo/src")
i4 = lambda n: struct.pack("!i", n)
def deep_tuple(n):
    return b"@" + i4(0) + (b"@" + i4(1)) * n
def deep_list(n):
    # K n items... a list holding a list: NEWLIST 1, index 0, <inner>, SETITEM  (built outside-in)
    return (b"K" + i4(1) + b"F" + i4(0)) * n + b"L" + b"P" * n
def deep_frozenset(n):
    return b"E" + i4(0) + (b"E" + i4(1)) * n
for n in eval(sys.argv[1]):
    shapes = {
        "tuple": deep_tuple(n),
        "list": deep_list(n),
        "set1": deep_tuple(n) + b"O" + i4(1),
        "set2": deep_tuple(n) * 2 + b"O" + i4(2),
        "dictkey": b"J" + deep_tuple(n) + b"L" + b"P",
        "dictkey2": b"J" + deep_tuple(n) + b"L" + b"P" + deep_tuple(n) + b"L" + b"P",
        "frozenset-nest": deep_frozenset(n),
        "tuple-in-frozenset": deep_tuple(n) + b"E" + i4(1) + b"@" + i4(1) + b"E" + i4(1),
    }
    for name, body in shapes.items():
        try:
            v = execnet.loads(b"\x02" + body + b"Q")
            r = "value"
            del v
        except execnet.DataFormatError:
            r = "DataFormatError"
        except BaseException as e:
            r = type(e).__name__
        print(n, name, r, flush=True)
'''


class ConcLoadScn:
    """two threads inside loads() at the same time, preempted at every statement of the unserializer: each
    call gives exactly the result it gives alone (the nesting guard of one must not be reset by the other)"""

    @staticmethod
    def inputs():
        import struct

        i4 = lambda n: struct.pack("!i", n)  # noqa: E731
        deep = b"@" + i4(0) + (b"@" + i4(1)) * 300
        return [b"\x02" + deep + b"O" + i4(1) + b"Q", R.encode([1, {"k": (2, 3)}, {4}])]

    @staticmethod
    def scenario(w, P):
        import execnet

        from .common import Session

        S = Session(w, "popen", "thread")
        data = ConcLoadScn.inputs()

        def main():
            w.exploring = True

            def user(i):
                try:
                    v = execnet.loads(data[i])
                    w.observe("res", i, "value", srepr(v, 40))
                except execnet.DataFormatError:
                    w.observe("res", i, "DataFormatError", "")
                except BaseException as e:  # noqa: BLE001
                    w.observe("res", i, type(e).__name__, str(e)[:60])

            for i in range(2):
                S.user(user, f"loader{i}", (i,))
            S.join_users()
            w.exploring = False
            w.observe("joined")

        S.main(main)
        return S

    @staticmethod
    def oracle(w, S, P):
        obs = w.obs
        if ("joined",) not in obs:
            return ("c13:concurrent-load-hang", f"obs={obs}"), 0
        res = {e[1]: e[2] for e in obs if e[0] == "res"}
        if res.get(0) != "DataFormatError" or res.get(1) != "value":
            return ("c13:concurrent-load", f"two concurrent loads(): the over-deep set member gave {res.get(0)} (alone: DataFormatError), the small value gave {res.get(1)} (alone: value): {obs}"), 0
        return None, 1


def _limit_memory():
    try:
        resource.setrlimit(resource.RLIMIT_AS, (3 * 2**30, 3 * 2**30))
    except (ValueError, OSError):
        pass


def run_chunk(chunk):
    """chunk: ("soup", length, first-symbol index) | ("blobs", [bytes])"""
    import execnet  # noqa: F401
    from execnet import gateway_base as gb

    _limit_memory()
    install_audit()
    # warm up lazy imports (codecs etc.) so that they are not mistaken for side effects
    for b in (R.encode(["é", 1.5, {1: (2,)}]), b"\x02N\x00\x00\x00\x01\xffQ"):
        try:
            execnet.loads(b)
        except Exception:  # noqa: BLE001
            pass
    # watch Channel creation
    orig_init = gb.Channel.__init__

    def spy(self, *a, **k):
        CHANNELS_CREATED.append(1)
        return orig_init(self, *a, **k)

    gb.Channel.__init__ = spy
    findings: dict = {}
    n = 0
    kinds = {"value": 0, "other": 0}
    try:
        if chunk[0] == "soup":
            _, length, first = chunk
            it = (b"\x02" + ALPHABET[first] + b"".join(t) for t in itertools.product(ALPHABET, repeat=length - 1)) if length else iter([b"\x02"])
        else:
            it = iter(chunk[1])
        for data in it:
            n += 1
            r = classify(data)
            if r is not None:
                d = findings.setdefault(r[0], [0, data, r[1]])
                d[0] += 1
                if len(data) < len(d[1]):
                    d[1], d[2] = data, r[1]
    finally:
        gb.Channel.__init__ = orig_init
    return n, findings


def mutations(blob: bytes):
    out = []
    for i in range(len(blob)):
        for b in range(256):
            if b != blob[i]:
                out.append(blob[:i] + bytes([b]) + blob[i + 1 :])
        out.append(blob[:i] + blob[i + 1 :])
    for i in range(len(blob) + 1):
        for b in range(256):
            out.append(blob[:i] + bytes([b]) + blob[i:])
    for i in range(len(blob)):
        out.append(blob[:i])
    return out


def seeds(tier):
    from .c01_roundtrip import value_space

    vals = value_space("quick")
    picks = [None, True, 5, -(2**31), 2**31, -(2**31) - 1, 10**30, 1.5, 1j, b"ab", "é€", [], (), {}, set(), frozenset(), [1, "a"], (1, (2,)), {"k": [1]}, {1, 2}, frozenset([b"x"]), {(1, 2): {"a": None}}, [[], [[]]], "", b""]
    picks += vals[60 :: max(1, len(vals) // (36 if tier == "quick" else 280))]
    blobs = []
    for v in picks:
        try:
            b = R.encode(v)
        except Exception:  # noqa: BLE001
            continue
        if len(b) <= 48:
            blobs.append(b)
    # legacy dialect seeds
    for v in ([R.Py2Str(b"a\xff"), R.Py2Unicode("u€"), R.Py2Long(7), R.Py2Long(10**20)],):
        blobs.append(R.encode(v))
    return blobs


def run(tier: str, only=None) -> int:
    rep = evidence.Report(PID, tier, "exploration")
    L = 4 if tier == "quick" else 5
    rep.rule.append(f"(a) ALL byte strings version-byte + w, w over a {len(ALPHABET)}-symbol alphabet (every opcode, an unknown opcode, boundary bytes) up to length {L}; (b) every single-byte substitution, deletion, insertion and every strict prefix of valid dumps; oracle = typed errors only + differential against an independent strict reference decoder; non-trivial = distinct input")
    known_keys = {k["key"] for k in rep.known}
    total = 0
    findings: dict = {}

    def merge(res):
        nonlocal total
        for n, f in res:
            total += n
            for k, (cnt, data, detail) in f.items():
                d = findings.setdefault(k, [0, data, detail])
                d[0] += cnt
                if len(data) < len(d[1]):
                    d[1], d[2] = data, detail

    chunks = [("soup", 0, 0)]
    for length in range(1, L + 1):
        for first in range(len(ALPHABET)):
            chunks.append(("soup", length, first))
    res = pmap(run_chunk, chunks)
    merge(res)
    nsoup = total
    rep.add_enumeration("opcode-soup", nsoup, nsoup, {"alphabet": len(ALPHABET), "max_len": L})
    blobs = seeds(tier)
    muts = []
    for b in blobs:
        muts.append(("blobs", mutations(b)))
    res = pmap(run_chunk, muts)
    merge(res)
    rep.add_enumeration("mutations-and-prefixes", total - nsoup, total - nsoup, {"valid_dumps": len(blobs)})
    rep.sample({"soup": repr(b"\x02" + b"".join(ALPHABET[:3]))})
    rep.sample({"seed dump": repr(blobs[9])})
    # length-prefixed payloads of every size class (buffer / chunk boundaries), in every position, whole and cut
    sizes = [0, 1, 4095, 4096, 4097, 8191, 8192, 8193, 65535, 65536, 65537, 131072, 200001] + ([(1 << 20) + 1, (1 << 22) + 3] if tier != "quick" else [])
    big = []
    for n in sizes:
        for leaf in (bytes(range(256)) * (n // 256 + 1))[:n], "a" * n, R.Py2Str(b"\xfe" * n), R.Py2Unicode("u" * n):
            hashable = not isinstance(leaf, (R.Py2Str, R.Py2Unicode))
            for place in ("root", "list", "key", "set", "tuple"):
                if place in ("key", "set") and not hashable:
                    place_v = {1: leaf} if place == "key" else (leaf, 1)
                else:
                    place_v = {"root": leaf, "list": [0, leaf], "key": {leaf: 1}, "set": {leaf} if hashable else None, "tuple": (leaf, leaf)}[place]
                blob = R.encode(place_v)
                big.append(blob)
                if n:
                    # cut inside the payload: EOFError, never a value and never a foreign type
                    big.append(blob[: len(blob) - n // 2 - 3])
    res = pmap(run_chunk, [("blobs", big[i::32]) for i in range(32)])
    before = total
    merge(res)
    rep.add_enumeration("payload-size-classes", total - before, total - before, {"sizes": sizes})
    # nesting-depth classes: hashing / comparing deeply nested tuples recurses in C (RecursionError,
    # or a crashed interpreter): run in a child process so that a crash is an observation, not our end
    import subprocess
    import sys as _sys

    depths = [1, 10, 255, 256, 257, 1000, 2000, 5000, 50000, 200000] + ([1000000] if tier != "quick" else [])
    r = subprocess.run([_sys.executable, "-c", DEEP_CELL, repr(depths)], capture_output=True, text=True, timeout=600, env=dict(os.environ, PYTHONPATH="/repo/src"))
    seen_cells = set()
    for line in r.stdout.splitlines():
        parts = line.split()
        if len(parts) == 3:
            seen_cells.add((int(parts[0]), parts[1]))
            if parts[2] not in ("value", "DataFormatError", "EOFError"):
                rep.violation("c13:deep-nesting-untyped", f"loads() of a {parts[1]} shape nested {parts[0]} deep raised {parts[2]}", {"check": PID, "sub": "deep", "depth": int(parts[0]), "shape": parts[1]})
    want_cells = {(d, s) for d in depths for s in DEEP_SHAPES}
    if r.returncode != 0 or seen_cells != want_cells:
        missing = sorted(want_cells - seen_cells)[:3]
        rep.violation("c13:deep-nesting-crash", f"the interpreter did not survive loads() of deeply nested input: exit status {r.returncode}, first shapes without a result: {missing}; stderr tail: {r.stderr[-200:]}", {"check": PID, "sub": "deep", "returncode": r.returncode})
    rep.add_enumeration("nesting-depth-classes", len(want_cells), len(want_cells), {"depths": depths, "shapes": list(DEEP_SHAPES)})
    # two loads at once, preempted inside the unserializer
    from engine import harness

    umask = harness.stmt_mask(lambda m, q, l: m == "gateway_base" and (q.startswith("Unserializer.") or q in ("loads", "load")))
    harness.run_exploration(rep, PID, "concload", ConcLoadScn, {}, {"ps": 0, "pl": 1, "free": 0}, stmt=umask, max_execs=2000000, horizon=200000)  # one preemption at each of ~7000 statement points
    # no strict prefix of a valid dump may load successfully
    import execnet

    npre = 0
    for b in blobs:
        for i in range(len(b)):
            npre += 1
            try:
                v = execnet.loads(b[:i])
                rep.violation("c13:prefix-accepted", f"strict prefix {b[:i]!r} of the valid dump {b!r} loads as {srepr(v, 60)}", {"check": PID, "sub": "prefix", "input_hex": b[:i].hex()})
            except Exception:  # noqa: BLE001
                pass
    rep.add_enumeration("strict-prefixes", npre, npre)
    for k, (cnt, data, detail) in sorted(findings.items()):
        if k.startswith("info-"):
            continue
        key = f"c13:{k}"
        msg = f"{cnt} inputs, shortest: loads({data!r}) -> {detail}"
        if k == "prealloc":
            key = "c13:newlist-preallocation"
        if k == "bigint-limit":
            key = "c13:longint-over-4300-digits"
        rep.violation(key, msg, {"check": PID, "sub": k, "input_hex": data.hex(), "detail": detail, "count": cnt})
    rep.cov["finding_classes"] = {k: v[0] for k, v in findings.items()}
    rep.assumptions += ["inputs whose NEWLIST count exceeds what the remaining input could justify are classified by the reference decoder (never executed) and tracked as a separate known finding", "EOFError is accepted whenever the implementation actually ran off the end of the input; strictness is carried by the differential value check"]
    return rep.finish()


def replay(path: str) -> int:
    import json

    d = json.load(open(path))
    if "choices" in d:
        from engine import harness

        return harness.replay_file(path, {"concload": ConcLoadScn}, stmt_for=lambda d: harness.stmt_mask(lambda m, q, l: m == "gateway_base" and (q.startswith("Unserializer.") or q in ("loads", "load"))))
    if "input_hex" not in d:
        print(d)
        return 1
    data = bytes.fromhex(d["input_hex"])
    install_audit()
    print("input:", data)
    r = classify(data)
    print("verdict:", r)
    return 1 if r else 0
