"""C11 -- workers never outlive their initiator.

The initiator process dies at every byte offset of its initiator->worker stream (from
the first byte of the bootstrap line on), or just closes its write side, while the
worker runs one of a set of activities; the worker must be gone within 15 virtual
seconds on every path of the escalation ladder.
"""

from __future__ import annotations

from engine import evidence
from engine import explorer
from engine import harness

from .common import Session

PID = "C11"

ACTIVITIES = {
    "idle": None,
    "recv": "channel.receive()",
    "sleep": "em = channel.gateway.execmodel\nwhile True:\n    em.sleep(0.1)",
    "busy": "em = channel.gateway.execmodel\nwhile True:\n    em.sleep(0.001)",
    "swallow": "em = channel.gateway.execmodel\nwhile True:\n    try:\n        em.sleep(0.1)\n    except KeyboardInterrupt:\n        pass",
    "daemon": "em = channel.gateway.execmodel\ndef spin():\n    while True:\n        em.sleep(0.1)\nem.start(spin)",
    "send": "for i in range(50):\n    channel.send(b'x' * 10)",
    "sink": "for x in channel:\n    pass",
    "two": "channel.receive()",  # plus a second body sleeping in a non-main thread
    "swallow-recv": "em = channel.gateway.execmodel\nwhile True:\n    try:\n        channel.receive()\n    except EOFError:\n        em.sleep(0.05)",
    # what the worker's channels look like when the connection goes: callbacks registered on channels
    # whose objects are gone / still held / that fail on the endmarker, and many open channels
    "cb-dropped": "c = channel.gateway.newchannel()\nc.setcallback(lambda x: None)\ndel c",
    "cb-held": "c = channel.gateway.newchannel()\nc.setcallback(lambda x: None, endmarker=None)\nchannel.gateway._vp_keep = c",
    "cb-two-dropped": "for i in range(2):\n    c = channel.gateway.newchannel()\n    c.setcallback(lambda x: None, endmarker=None)\n    del c\nchannel.receive()",
    "cb-raise-end": "def cb(x):\n    raise ValueError('callback fails on %r' % (x,))\nc = channel.gateway.newchannel()\nc.setcallback(cb, endmarker=None)\nchannel.gateway._vp_keep = c",
    "many-open": "channel.gateway._vp_keep = [channel.gateway.newchannel() for i in range(3)]\nchannel.receive()",
}


class OrphanScn:
    """P: activity, backend, N (None = reference), mode ("die" | "close_write"), ks"""

    @staticmethod
    def scenario(w, P):
        S = Session(w, "popen", P.get("backend", "thread"))
        ctx = S.ctx

        def popen_hook(proc):
            if "pipe" in ctx:
                return
            pipe = proc.pin
            pipe.record = bytearray()
            ctx["pipe"] = pipe
            ctx["worker"] = proc
            if P.get("N") is not None and P.get("mode", "die") == "die":
                ks = P.get("ks") or list(range(P["N"] + 1))
                w.exploring = True
                c = w.chooser.choose(w, len(ks) + 1, "cut", "death-offset")
                w.exploring = False
                if c:
                    pipe.cut_at = ks[c - 1]
                ctx["k"] = ks[c - 1] if c else None

        w.opts["popen_hook"] = popen_hook

        def main():
            gw = S.open()
            em = S.proc.execmodel
            act = P["activity"]
            w.exploring = bool(P.get("explore"))
            chans = []
            if P.get("warm"):
                # the worker is not fresh: an earlier remote_exec ran to completion (its pool was idle once)
                for _ in range(P["warm"]):
                    gw.remote_exec("channel.send(1)").waitclose(10)
            if ACTIVITIES[act] is not None:
                chans.append(gw.remote_exec(ACTIVITIES[act]))
            if act == "two":
                chans.append(gw.remote_exec(ACTIVITIES["sleep"]))
            if act == "sink":
                for i in range(5):
                    chans[0].send(b"y" * 20)
            if P.get("flood"):
                # mid data transfer to a worker that does not drain its channel: many small items pile up
                for i in range(P["flood"]):
                    chans[0].send(i)
            em.sleep(1.0)
            if P.get("mode") == "close_write":
                ctx["k"] = "close_write"
                ctx["t_cut"] = w.now
                gw._io.close_write()
                em.sleep(30.0)
                return
            if P.get("N") is None:
                # reference run: only measures the stream; end the world without relying on the ladder
                em.sleep(2.0)
                S.worker_proc().die(-9, "reference-cleanup")
                return
            # not cut during the scripted traffic: die now ("initiator exits / is killed while idle")
            if ctx.get("k") is None:
                ctx["k"] = "end"
            ctx["t_cut"] = w.now
            S.proc.die(-9, "killed")

        S.main(main)
        return S

    @staticmethod
    def oracle(w, S, P):
        ctx = S.ctx
        pipe = ctx.get("pipe")
        worker = ctx.get("worker")
        n = len(pipe.record) if pipe is not None else -1
        if P.get("N") is None and P.get("mode") != "close_write":
            return None, ("ref", n, pipe.writes[0] if pipe is not None and pipe.writes else 0)
        t_cut = ctx.get("t_cut")
        if t_cut is None:
            # died inside a write: the log knows when
            cuts = [e for e in w.logl if len(e) > 1 and e[1] == "cut"]
            t_cut = cuts[0][0] if cuts else None
        if worker is None or t_cut is None:
            return ("c11:harness", f"no worker / no cut recorded: ctx={ {k: v for k, v in ctx.items() if k != 'pipe'} }"), ("?",)
        rung = None
        if not worker.alive:
            dt = worker.exit_time - t_cut
            if worker.exit_reason == "os._exit":
                rung = "os._exit"
            elif worker.sigints:
                rung = "sigint"
            else:
                rung = "shutdown"
        outcome = (rung, None if worker.alive else round(worker.exit_time - t_cut, 3))

        def V(key, msg):
            return (f"c11:{key}", f"{msg}\n  death offset={ctx.get('k')}\n  params={ {k: v for k, v in P.items() if k != 'ks'} }\n  worker={worker} exit_reason={worker.exit_reason} sigints={worker.sigints}\n  blocked={w.blocked_at_end}\n  log tail={w.logl[-8:]}\n  stderr={w.stderr.getvalue()[-600:]}"), outcome

        if worker.alive:
            return V("orphan", f"worker process still alive at quiescence (virtual t={w.now}, initiator gone at t={t_cut})")
        if dt > 15.1:
            return V("late", f"worker ended {dt} virtual s after the initiator was gone (bound 15 s)")
        return None, outcome


SCENARIOS = {"orphan": OrphanScn}


def run(tier: str, only=None) -> int:
    rep = evidence.Report(PID, tier, "model_checking")
    rep.rule.append("worker activity x exec model x every byte offset of the initiator->worker stream (bootstrap line included) as the moment the initiator dies, plus close_write only, x schedules within bounds; virtual clock runs the whole 5 s / 10 s escalation ladder")
    rep.assumptions += [
        "signal model: SIGINT to the own pid raises KeyboardInterrupt in the main thread at its next scheduling point (CPython semantics for blocking waits)",
        "process model: a process ends when its main thread has returned and no non-daemon thread is left (threads started through the exec model are daemon threads), os._exit ends it at once, ending closes all descriptors",
        "discrete-event virtual time",
        "non-daemon user threads and uninterruptible C calls are outside the property's quantifier",
    ]
    cap = 400000 if tier == "quick" else 6000000
    stmt = harness.stmt_mask(lambda m, q, l: m == "gateway_base" and (q.startswith("WorkerPool.") or q.startswith("WorkerGateway.") or q.startswith("BaseGateway._thread_receiver") or q.startswith("Reply.")))
    rungs = set()
    acts = list(ACTIVITIES)
    for backend in ("thread", "main_thread_only", "gevent"):
        for act in acts:
            name = f"orphan/{backend}:{act}"
            if only and only not in name:
                continue
            if backend == "gevent" and act in ("two",) :
                continue
            if tier == "quick" and backend != "thread" and act in ("busy", "send", "sink", "daemon", "cb-held", "cb-two-dropped", "many-open"):
                continue
            P = {"activity": act, "backend": backend, "N": None}
            ref = explorer.run_once(OrphanScn.scenario, OrphanScn.oracle, P, [])
            N, boot = ref.outcome[1], ref.outcome[2]
            P = {"activity": act, "backend": backend, "N": N}
            ks = None
            if tier == "quick":
                # every offset of the frame traffic; the bootstrap line (consumed by one readline) at its
                # first and last 8 offsets and 3 interior ones
                ks = sorted((set(range(0, N + 1)) - set(range(8, max(8, boot - 8)))) | {20, boot // 2, boot - 20})
                ks = [k for k in ks if 0 <= k <= N]
                P["ks"] = ks
            if act in ("idle", "swallow") and backend == "thread":
                rep.sample({"sub": name, "stream_bytes": N, "params": {k: v for k, v in P.items() if k != "ks"}})
            st = harness.run_exploration(rep, PID, name + "/die", OrphanScn, P, {"cut": 1, "ps": 0, "free": 1}, max_execs=cap, params_desc={"stream_bytes": N, "death_offsets": len(ks) if ks else N + 1})
            rungs |= {o[0] for o in st.outcomes}
            Pc = {"activity": act, "backend": backend, "N": None, "mode": "close_write", "explore": tier == "thorough"}
            st = harness.run_exploration(rep, PID, name + "/close_write", OrphanScn, Pc, {"ps": 1, "free": 1} if tier == "thorough" else {"ps": 0, "free": 0}, max_execs=cap)
            rungs |= {o[0] for o in st.outcomes}
            # schedules of both sides crossed with a subset of death offsets (frame traffic every 5th byte + idle)
            sub = sorted(set(range(boot, N + 1, 5 if tier == "quick" else 1)) | {N})
            Pe = {"activity": act, "backend": backend, "N": N, "ks": sub, "explore": True}
            st = harness.run_exploration(rep, PID, name + "/die-sched", OrphanScn, Pe, {"cut": 1, "ps": 1, "free": 1} if tier == "quick" else {"cut": 1, "ps": 2, "free": 1}, max_execs=cap, params_desc={"death_offsets": len(sub)})
            rungs |= {o[0] for o in st.outcomes}
            # two preemptions around the loss of the connection while the initiator is idle (the worker's
            # receiver thread against its main thread finishing a body at that very moment)
            if act in ("recv", "sink", "swallow-recv", "two", "daemon", "idle") and backend != "gevent":
                P2 = {"activity": act, "backend": backend, "N": N, "ks": [N], "explore": True}
                st = harness.run_exploration(rep, PID, name + "/die-idle-ps2", OrphanScn, P2, {"cut": 1, "ps": 2, "free": 1} if tier == "quick" else {"cut": 1, "ps": 3, "free": 2}, max_execs=cap)
                rungs |= {o[0] for o in st.outcomes}
            # statement-level preemption inside the worker's pool / gateway code while the
            # connection is lost: the body ends at the same moment the receiver thread shuts the pool down
            if act in ("recv", "sink", "swallow-recv", "idle", "send") and backend != "gevent":
                Ps = {"activity": act, "backend": backend, "N": N, "ks": [N], "explore": True}
                st = harness.run_exploration(rep, PID, name + "/die-idle-stmt", OrphanScn, Ps, {"cut": 1, "ps": 0, "pl": 1 if tier == "quick" else 2, "free": 1}, stmt=stmt, max_execs=cap)
                rungs |= {o[0] for o in st.outcomes}
    # the same activities on a worker with a history (earlier bodies ran to completion)
    for backend in ("thread", "main_thread_only"):
        for act in ("sleep", "busy", "swallow", "recv", "two", "idle"):
            for warm in (1, 2):
                name = f"orphan-warm{warm}/{backend}:{act}"
                if only and only not in name:
                    continue
                if tier == "quick" and (warm == 2 and act not in ("sleep", "swallow")):
                    continue
                P = {"activity": act, "backend": backend, "N": None, "warm": warm}
                ref = explorer.run_once(OrphanScn.scenario, OrphanScn.oracle, P, [])
                N, boot = ref.outcome[1], ref.outcome[2]
                sub = sorted(set(range(boot, N + 1, 7 if tier == "quick" else 1)) | {N})
                Pw = {"activity": act, "backend": backend, "N": N, "ks": sub, "warm": warm, "explore": True}
                st = harness.run_exploration(rep, PID, name, OrphanScn, Pw, {"cut": 1, "ps": 1, "free": 0} if tier == "quick" else {"cut": 1, "ps": 1, "free": 1}, max_execs=cap, params_desc={"death_offsets": len(sub)})
                rungs |= {o[0] for o in st.outcomes}
    # many items piled up on a channel the worker does not drain (it sleeps / is busy / swallows interrupts)
    for act in ("sleep", "swallow", "busy"):
        for flood in (100, 600, 1500) if tier == "quick" else (100, 600, 1500, 5000):
            name = f"orphan-flood{flood}/{act}"
            if only and only not in name:
                continue
            if tier == "quick" and act == "busy" and flood != 600:
                continue
            P = {"activity": act, "backend": "thread", "N": None, "flood": flood}
            ref = explorer.run_once(OrphanScn.scenario, OrphanScn.oracle, P, [], horizon=2000000)
            N, boot = ref.outcome[1], ref.outcome[2]
            sub = sorted({N, N - 1, N - 9, boot + (N - boot) // 2})
            Pf = {"activity": act, "backend": "thread", "N": N, "ks": sub, "flood": flood}
            st = harness.run_exploration(rep, PID, name, OrphanScn, Pf, {"cut": 1, "ps": 0, "free": 0}, max_execs=cap, horizon=2000000, params_desc={"death_offsets": sub, "items": flood})
            rungs |= {o[0] for o in st.outcomes}
    rep.cov["rungs_reached"] = sorted(r for r in rungs if r)
    if not only and not {"shutdown", "sigint", "os._exit"} <= rungs:
        rep.internal.append(f"vacuity guard: escalation rungs reached {rungs}, expected all three")
    return rep.finish()


def replay(path: str) -> int:
    return harness.replay_file(path, SCENARIOS, stmt_for=lambda d: harness.stmt_mask(lambda m, q, l: m == "gateway_base" and (q.startswith("WorkerPool.") or q.startswith("WorkerGateway.") or q.startswith("BaseGateway._thread_receiver") or q.startswith("Reply."))))
