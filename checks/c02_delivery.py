"""C02 -- channels deliver each item exactly once, in order, to the right channel."""

from __future__ import annotations

from engine import evidence
from engine import harness

from .chanprog import ChanProg
from .chanprog import default_channel as ch

PID = "C02"
class CreateRaceScn:
    """channels created concurrently by several user threads must stay separate conversations"""

    @staticmethod
    def scenario(w, P):
        from .common import Session

        S = Session(w, P.get("transport", "popen"), "thread")

        def main():
            gw = S.open()
            w.exploring = True

            def user(i):
                try:
                    if P["how"] == "remote_exec":
                        ch = gw.remote_exec("for k in range(2):\n    channel.send((%d, k))" % i)
                    else:
                        ctl = gw.remote_exec("c = channel.receive()\nfor k in range(2):\n    c.send((%d, k))\nc.close()" % i)
                        ch = gw.newchannel()
                        ctl.send(ch)
                    got = []
                    try:
                        while True:
                            got.append(ch.receive(timeout=20))
                    except EOFError:
                        pass
                    w.observe("user", i, ch.id, got)
                except BaseException as e:  # noqa: BLE001
                    w.observe("user-exc", i, type(e).__name__, str(e)[:80])

            for i in range(P["threads"]):
                S.user(user, f"user{i}", (i,))
            S.join_users()
            w.exploring = False
            w.observe("joined")
            S.group.terminate(timeout=2.0)

        S.main(main)
        return S

    @staticmethod
    def oracle(w, S, P):
        obs = w.obs
        out = tuple(sorted((e[1], e[2]) for e in obs if e[0] == "user"))
        if ("joined",) not in obs:
            return ("c02:hang", f"user threads never finished: {obs} blocked={w.blocked_at_end}"), out
        for e in obs:
            if e[0] == "user-exc":
                return ("c02:unexpected-exception", f"{e}"), out
            if e[0] == "user" and e[3] != [(e[1], 0), (e[1], 1)]:
                return ("c02:leak", f"thread {e[1]} created its own channel (id {e[2]}) but received {e[3]}; all: {[x for x in obs if x[0] == 'user']}"), out
        return None, out


SCENARIOS = {"prog": ChanProg, "create": CreateRaceScn}


def programs(tier):
    progs = [
        [ch(down=2)],
        [ch(up=2)],
        [ch(up=2, down=2)],
        [ch(down=2, recv="callback")],
        [ch(down=2, recv="iter")],
        [ch(down=2, down_senders=2)],
        [ch(up=2, up_senders=2, wrecv="callback")],
        [ch(down=2, receivers=2)],
        [ch(up=1, down=1), ch(up=1, down=1)],
        [ch(down=2, recv="callback"), ch(down=2)],
        [ch(), ch(kind="new", down=2)],
        [ch(), ch(kind="new", up=2, wrecv="callback")],
    ]
    if tier == "thorough":
        progs += [
            [ch(up=3, down=3, up_senders=2, down_senders=2)],
            [ch(down=3, receivers=2, down_senders=2)],
            [ch(up=2, down=2, recv="callback", wrecv="callback"), ch(up=1, down=2, recv="iter")],
            [ch(), ch(kind="new", up=2, down=2, recv="callback")],
            [ch(down=3, recv="iter", down_senders=2), ch(kind="new", down=2, receivers=2)],
        ]
    return progs


def stmt_pred(m, q, l):
    return m == "gateway_base" and (q.startswith("Channel.") or q.startswith("ChannelFactory.") or q.startswith("BaseGateway._thread_receiver") or q.startswith("BaseGateway._send") or q.startswith("Message."))


def run(tier: str, only=None) -> int:
    rep = evidence.Report(PID, tier, "model_checking")
    rep.rule.append(
        "generated channel programs x all interleavings of user threads and both receiver threads within the bounds; "
        "non-trivial = execution with at least one non-default choice, distinct by choice sequence"
    )
    rep.assumptions += [
        "virtual pipes model BufferedWriter.write as atomic per call; socket sendall is a loop of partial sends",
        "process start-up (python -c bootstrap, init_popen_io) is modelled, not executed",
        "statement-level preemption granularity is a source statement",
    ]
    stmt = harness.stmt_mask(stmt_pred)
    if tier == "quick":
        b_sync, b_stmt, cap = {"ps": 2, "free": 1}, {"ps": 0, "pl": 1, "free": 1}, 400000
    else:
        # thorough = more programs (17) on every transport at the quick bounds, the small ones one step deeper
        b_sync, b_stmt, cap = {"ps": 2, "free": 1}, {"ps": 0, "pl": 1, "free": 1}, 6000000
    progs = programs(tier)
    n = 0
    for i, chans in enumerate(progs):
        variants = [("popen", "thread", 0)]
        if i in (2, 5):
            variants.append(("popen", "main_thread_only", 0))
        if i in (2, 9) or (tier == "thorough" and i % 2 == 0):
            variants.append(("socket", "thread", 0))
            variants.append(("via", "thread", 0))
        for transport, backend, size in variants:
            P = {"transport": transport, "backend": backend, "channels": chans, "size": size}
            name = f"prog/{i}:{transport}:{backend}"
            if only and only not in name:
                continue
            n += 1
            rep.sample({"sub": name, "params": P})
            mo = 2 if any(c["down"] > 1 and (c["down_senders"] > 1 or c["receivers"] > 1) for c in chans) or len(chans) > 1 and sum(1 for c in chans if c["down"]) > 1 else 0
            big = len(chans) > 1 or transport != "popen" or i >= 12
            if big:
                harness.run_exploration(rep, PID, name + "/sync-a", ChanProg, P, {"ps": 1, "free": 1}, max_execs=cap, min_outcomes=mo)
                harness.run_exploration(rep, PID, name + "/sync-b", ChanProg, P, {"ps": 2, "free": 0}, max_execs=cap)
            else:
                harness.run_exploration(rep, PID, name + "/sync", ChanProg, P, b_sync, max_execs=cap, min_outcomes=mo)
            if transport == "popen":
                harness.run_exploration(rep, PID, name + "/stmt", ChanProg, P, {"ps": 0, "pl": 1, "free": 0} if big else ({"ps": 0, "pl": 2, "free": 1} if tier != "quick" and i < 5 else b_stmt), stmt=stmt, max_execs=cap)
    # channels created concurrently
    fstmt = harness.stmt_mask(lambda m, q, l: m == "gateway_base" and (q.startswith("ChannelFactory.") or q.startswith("Channel.__init__")))
    for how in ("remote_exec", "newchannel"):
        name = f"create/{how}"
        if only and only not in name:
            continue
        P = {"how": how, "threads": 2}
        harness.run_exploration(rep, PID, name + "/sync", CreateRaceScn, P, {"ps": 2, "free": 0} if tier == "quick" else {"ps": 2, "free": 1}, max_execs=cap)
        harness.run_exploration(rep, PID, name + "/stmt", CreateRaceScn, P, {"ps": 0, "pl": 2, "free": 0}, stmt=fstmt, max_execs=cap)
    # a callback receiver whose channel handle was dropped keeps receiving every item (no loss)
    from .c10_callbacks import CbScn

    class DroppedCb:
        scenario = staticmethod(CbScn.scenario)

        @staticmethod
        def oracle(w, S, P):
            v, out = CbScn.oracle(w, S, P)
            if v is not None:
                return ("c02:callback-" + v[0].split(":", 1)[1], v[1]), out
            return None, out

    SCENARIOS["dropped"] = DroppedCb
    for end, chan in (("close", "new"), ("body-end", "exec")):
        name = f"dropped/{end}"
        if only and only not in name:
            continue
        P = {"n": 3, "k": 0, "end": end, "chan": chan, "endmarker": True, "delay": 0, "drop_handle": True, "transport": "popen", "backend": "thread"}
        harness.run_exploration(rep, PID, name, DroppedCb, P, {"ps": 1, "free": 1}, max_execs=cap)
    # read chunking as an environment deviation
    P = {"transport": "popen", "backend": "thread", "channels": [ch(up=1, down=2)], "size": 3, "short_reads": True}
    if not only or "chunk" in only:
        harness.run_exploration(rep, PID, "prog/chunking:popen", ChanProg, P, {"ps": 1, "env": 1, "free": 0} if tier == "quick" else {"ps": 1, "env": 2, "free": 1}, max_execs=cap)
    # two sender threads per side preempted INSIDE the serializer / unserializer (items are nested
    # containers, so serialising one takes many statements): nothing may leak between concurrent sends
    sstmt = harness.stmt_mask(lambda m, q, l: m == "gateway_base" and (q.startswith("_Serializer.") or q.startswith("Unserializer.") or q in ("dumps_internal", "loads_internal", "Channel.send")))
    for name, chans in (("two-chan", [ch(up=1, down=1), ch(up=1, down=1)]), ("two-senders", [ch(up=2, down=2, up_senders=2, down_senders=2)])):
        if not only or "serial" in only:
            P = {"transport": "popen", "backend": "thread", "channels": chans, "size": 2}
            harness.run_exploration(rep, PID, f"prog/serializer:{name}", ChanProg, P, {"ps": 0, "pl": 1, "free": 0} if tier == "quick" else {"ps": 0, "pl": 2, "free": 0}, stmt=sstmt, max_execs=cap)
    # the cyclic collector finalizing another channel of the gateway in the middle of a send (small and
    # large items: a frame must stay whole whatever lands between its parts)
    for tr in ("popen", "socket", "via"):
        for size in (3, 70000):
            P = {"transport": tr, "backend": "thread", "channels": [ch(up=2, down=1)], "size": size, "gc": True}
            if not only or "gc" in only:
                harness.run_exploration(rep, PID, f"prog/gc:{tr}:{size}", ChanProg, P, {"ps": 0, "env": 1, "free": 0} if tier == "quick" else {"ps": 1, "env": 1, "free": 0}, max_execs=cap)
    for tr in ("socket", "via"):
        P = {"transport": tr, "backend": "thread", "channels": [ch(up=1, down=2)], "size": 3, "short_reads": True, "sendall_splits": tr == "socket"}
        if not only or "chunk" in only:
            harness.run_exploration(rep, PID, f"prog/chunking:{tr}", ChanProg, P, {"ps": 0, "env": 1, "free": 0} if tier == "quick" else {"ps": 1, "env": 2, "free": 0}, max_execs=cap)
    return rep.finish()


def replay(path: str) -> int:
    return harness.replay_file(path, SCENARIOS, stmt_for=lambda d: harness.stmt_mask(stmt_pred))
