"""C10 -- callback receivers see every item once, in order, then one endmarker."""

from __future__ import annotations

from engine import evidence
from engine import harness

from .common import Session

PID = "C10"

BODY = '''
import os
spec = {spec!r}
chan = channel
if spec["chan"] == "new":
    chan = channel.receive()
for i in range(spec["n"]):
    chan.send(("item", i))
if spec["end"] == "error":
    raise ValueError("boom")
elif spec["end"] == "eof":
    raise EOFError("the remote code ran into an EOF of its own")  # still the end of the remote execution
elif spec["end"] == "kill":
    os.kill(os.getpid(), 9)
elif spec["end"] == "close":
    chan.close()
elif spec["end"] == "block":
    channel.gateway.execmodel.Event().wait()
'''


# an endmarker is whatever object the caller asks for, the falsy ones included
ENDVALS = {"tuple": ("END",), "none": None, "zero": 0, "false": False, "empty": ""}


class CbScn:
    """P: n, k (items taken with receive() before setcallback), end, chan ("exec"|"new"),
    endmarker (bool), delay (virtual seconds before setcallback), transport, backend"""

    @staticmethod
    def scenario(w, P):
        S = Session(w, P.get("transport", "popen"), P.get("backend", "thread"))
        END = ENDVALS[P.get("endval", "tuple")]

        def main():
            gw = S.open()
            em = S.proc.execmodel
            calls = []
            S.ctx["calls"] = calls
            spec = {"n": P["n"], "end": P["end"], "chan": P["chan"]}
            ctl = gw.remote_exec(BODY.format(spec=spec))
            ch = ctl
            if P["chan"] == "new":
                ch = gw.newchannel()
            w.exploring = True
            if ch is not ctl:
                ctl.send(ch)
            if P.get("delay"):
                em.sleep(P["delay"])
            pre = []
            try:
                for _ in range(P["k"]):
                    pre.append(ch.receive())
            except BaseException as e:  # noqa: BLE001
                w.observe("pre-exc", type(e).__name__, str(e)[:80])
            w.observe("pre", pre)

            def cb(x):
                calls.append(x)
                if P.get("cb_raise_at") is not None and len(calls) - 1 == P["cb_raise_at"] and x != END:
                    raise ValueError("the callback fails on this item")
                if P.get("cb_close") and x == END:
                    ch.close()  # a callback may close its channel when it sees the endmarker

            try:
                if P["endmarker"]:
                    ch.setcallback(cb, endmarker=END)
                else:
                    ch.setcallback(cb)
            except BaseException as e:  # noqa: BLE001
                w.observe("setcallback-exc", type(e).__name__, str(e)[:80])
            if P.get("drop_handle"):
                # the callback is the only thing left of this channel: drop every handle to it
                got_end = em.Event()
                calls_cb = cb

                def cb2(x):
                    calls_cb(x)
                    if x == END:
                        got_end.set()

                # re-register is impossible: the callback set above already is `cb`; use its END detection below
                same = ctl is ch
                del ch
                if same:
                    ctl = None  # the exec channel itself is the callback channel
                for _ in range(400):
                    if calls and calls[-1] == END or P["end"] == "block":
                        break
                    em.sleep(0.05)
                if P["end"] == "block":
                    em.sleep(2.0)
                em.sleep(1.0)
                w.exploring = False
                S.ctx["calls"] = list(calls)
                w.observe("main-done")
                ctl = None
                S.group.terminate(timeout=2.0)
                w.observe("terminated")
                return
            if P.get("local_close"):
                # a local close from another thread racing with the end of the conversation
                S.user(lambda: ch.close(), "closer")
            try:
                ch.receive(timeout=0)
                w.observe("receive-after-setcallback-ok")
            except OSError as e:
                if isinstance(e, ch.TimeoutError):
                    w.observe("receive-after-setcallback-ok")
            except BaseException as e:  # noqa: BLE001
                w.observe("receive-exc", type(e).__name__)
            try:
                ch.setcallback(cb)
                w.observe("second-setcallback-ok")
            except OSError:
                pass
            if P["end"] == "exit":
                gw.exit()
            if P["end"] == "block":
                em.sleep(2.0)
            else:
                try:
                    ch.waitclose(20)
                except BaseException as e:  # noqa: BLE001
                    w.observe("waitclose", type(e).__name__)
                # the callbacks run in the receiver thread: let it settle
                em.sleep(1.0)
                if P.get("close_after"):
                    # the conversation is over and its endmarker delivered: closing the handle now (and the
                    # end of the gateway below) must not deliver it again
                    try:
                        ch.close()
                    except BaseException as e:  # noqa: BLE001
                        w.observe("close-after", type(e).__name__)
                    em.sleep(0.5)
                    S.group.terminate(timeout=2.0)
                    em.sleep(0.5)
            w.exploring = False
            S.ctx["calls"] = list(calls)
            w.observe("main-done")
            S.group.terminate(timeout=2.0)
            w.observe("terminated")

        S.main(main)
        return S

    @staticmethod
    def oracle(w, S, P):
        obs = w.obs
        calls = S.ctx.get("calls", [])
        END = ENDVALS[P.get("endval", "tuple")]
        outcome = (tuple(1 if c == END else 0 for c in calls), tuple(e[0] for e in obs if e[0] in ("pre",)))

        def V(key, msg):
            return (f"c10:{key}", f"{msg}\n  params={P}\n  callback calls={calls}\n  obs={obs}\n  blocked={w.blocked_at_end}\n  stderr={w.stderr.getvalue()[-600:]}"), outcome

        if ("main-done",) not in obs:
            return V("hang", "main thread never finished")
        for e in obs:
            if e[0] in ("pre-exc", "setcallback-exc", "receive-exc"):
                return V("unexpected-exception", str(e))
            if e[0] == "receive-after-setcallback-ok":
                return V("receive-after-setcallback", "receive() was not refused after setcallback")
            if e[0] == "second-setcallback-ok":
                return V("second-setcallback", "a second setcallback did not raise OSError")
        pre = [e[1] for e in obs if e[0] == "pre"][0]
        want = [("item", i) for i in range(P["n"])]
        if pre != want[: P["k"]]:
            return V("pre-receive", f"receive() before setcallback returned {pre}")
        items = [c for c in calls if c != END]
        ends = [i for i, c in enumerate(calls) if c == END]
        if P.get("cb_raise_at") is not None and P["cb_raise_at"] < len(want) - P["k"]:
            # the callback failed on an item: that ends the channel; the requested endmarker still comes, once
            if items != want[P["k"] :][: P["cb_raise_at"] + 1]:
                return V("items", f"callback failing on call {P['cb_raise_at']} got {items}")
            if len(ends) != 1 or ends[0] != len(calls) - 1:
                return V("endmarker-count", f"after the callback had failed on an item the endmarker was delivered {len(ends)} times (calls: {calls})")
            return None, outcome
        if P.get("local_close"):
            # a *local* close racing with in-flight items: the property promises "after the last item"
            # only for endings caused by the peer / the connection; here: no duplicates, order kept,
            # and the endmarker exactly once
            if items != want[P["k"] :][: len(items)]:
                return V("items", f"callback got {items}, not a prefix of {want[P['k']:]}")
            if len(ends) != 1:
                return V("endmarker-count", f"endmarker delivered {len(ends)} times (local close racing with the end of the conversation)")
            return None, outcome
        elif items != want[P["k"] :]:
            return V("items", f"callback got {items}, expected {want[P['k']:]}")
        if P["end"] == "block":
            if ends:
                return V("endmarker-early", "endmarker delivered although the channel is still open")
        elif P["endmarker"]:
            if len(ends) != 1:
                return V("endmarker-count", f"endmarker delivered {len(ends)} times")
            if ends[0] != len(calls) - 1:
                return V("endmarker-not-last", f"endmarker at position {ends[0]} of {len(calls)} calls")
        elif ends:
            return V("endmarker-unrequested", "endmarker delivered although none was requested")
        return None, outcome


class MultiScn:
    """MultiChannel.make_receive_queue over two gateways"""

    @staticmethod
    def scenario(w, P):
        S = Session(w, "popen", "thread")
        END = ENDVALS[P.get("endval", "tuple")]

        def main():
            from execnet.multi import Group

            S.group = g = Group(execmodel=S.proc.execmodel)
            g.makegateway("popen//id=a")
            g.makegateway("popen//id=b")
            w.exploring = True
            mc = g.remote_exec("for i in range(%d): channel.send(10 + i)" % P["n"])
            em = S.proc.execmodel
            if P.get("delay"):
                em.sleep(P["delay"])
            q = mc.make_receive_queue(endmarker=END)
            got = []
            nend = 0
            try:
                while nend < 2:
                    chx, item = q.get(timeout=20)
                    got.append((chx.gateway.id, item))
                    if item == END:
                        nend += 1
            except BaseException as e:  # noqa: BLE001
                w.observe("queue-exc", type(e).__name__)
            em.sleep(1.0)
            extra = []
            try:
                while True:
                    chx, item = q.get(block=False)
                    extra.append((chx.gateway.id, item))
            except em.queue.Empty:
                pass
            S.ctx["got"] = got
            S.ctx["extra"] = extra
            w.exploring = False
            w.observe("main-done")
            g.terminate(timeout=2.0)

        S.main(main)
        return S

    @staticmethod
    def oracle(w, S, P):
        got = S.ctx.get("got", [])
        extra = S.ctx.get("extra", [])
        END = ENDVALS[P.get("endval", "tuple")]
        outcome = tuple(g for g, _ in got)
        if ("main-done",) not in w.obs or any(e[0] == "queue-exc" for e in w.obs):
            return ("c10:multi-hang", f"obs={w.obs} got={got} blocked={w.blocked_at_end}"), outcome
        for gid in ("a", "b"):
            seq = [i for g, i in got if g == gid]
            if seq != [10 + i for i in range(P["n"])] + [END] or (seq and seq[-1] is not END):
                return ("c10:multi-order", f"member {gid}: queue delivered {seq}"), outcome
        if extra:
            return ("c10:multi-extra", f"items after both endmarkers: {extra}"), outcome
        return None, outcome


SCENARIOS = {"cb": CbScn, "multi": MultiScn}


def stmt_pred(m, q, l):
    return (m == "gateway_base" and (q.startswith("Channel.") or q.startswith("ChannelFactory.") or q.startswith("BaseGateway._thread_receiver"))) or (m == "multi" and q.startswith("MultiChannel."))


def cases(tier):
    cs = []
    ends = ("body-end", "error", "eof", "close", "kill", "exit", "block")
    for end in ends:
        for n in (2,) if tier == "quick" else (0, 1, 2, 3):
            for k in (0, 1):
                if k > n:
                    continue
                for endmarker in (True, False):
                    for delay in (0, 3.0):
                        if tier == "quick" and ((not endmarker and (k or delay)) or (k and delay)):
                            continue
                        if end in ("exit", "block") and (k or delay):
                            continue
                        chan = "new" if end == "close" else "exec"
                        cs.append({"n": n, "k": k, "end": end, "chan": chan, "endmarker": endmarker, "delay": delay})
                        if endmarker and not k and not delay:
                            cs.append({"n": n, "k": k, "end": end, "chan": chan, "endmarker": True, "delay": delay, "drop_handle": True})
                        if endmarker and not k and end in ("body-end", "close", "error", "kill"):
                            cs.append({"n": n, "k": k, "end": end, "chan": chan, "endmarker": True, "delay": delay, "cb_close": True})
                            if not delay:
                                cs.append({"n": n, "k": k, "end": end, "chan": chan, "endmarker": True, "delay": delay, "local_close": True})
    return cs


def run(tier: str, only=None) -> int:
    rep = evidence.Report(PID, tier, "model_checking")
    rep.rule.append("setcallback at any moment relative to item delivery and to the end of the conversation (close / end of exec / remote error / worker killed / gateway exit / still open) x all interleavings of the user thread with the receiver thread within the bounds")
    rep.assumptions += ["histories use either receive() or the callback on a channel at a time, never both concurrently", "virtual primitives / discrete time / statement granularity as in DESIGN 7"]
    stmt = harness.stmt_mask(stmt_pred)
    if tier == "quick":
        b_sync, b_stmt, cap = {"ps": 2, "free": 1}, {"ps": 0, "pl": 2, "free": 0}, 300000
    else:
        b_sync, b_stmt, cap = {"ps": 2, "free": 2}, {"ps": 0, "pl": 2, "free": 1}, 6000000
    for i, C in enumerate(cases(tier)):
        name = f"cb/{i}:{C['end']}:n{C['n']}k{C['k']}:{'E' if C['endmarker'] else 'N'}:d{C['delay']}" + (":cbclose" if C.get("cb_close") else "") + (":localclose" if C.get("local_close") else "") + (":dropped" if C.get("drop_handle") else "")
        if only and only not in name:
            continue
        P = dict(C, transport="popen", backend="thread")
        rep.sample({"sub": name, "params": P})
        harness.run_exploration(rep, PID, name + "/sync", CbScn, P, b_sync, max_execs=cap)
        harness.run_exploration(rep, PID, name + "/stmt", CbScn, P, b_stmt, stmt=stmt, max_execs=cap)
    for i, C in enumerate(cases(tier)):
        if C.get("cb_close") or C.get("local_close") or C["delay"] or C["k"] or not C["endmarker"]:
            continue
        if tier == "quick" and C["end"] not in ("body-end", "error", "kill", "close"):
            continue
        for tr, be in (("socket", "thread"), ("via", "thread"), ("popen", "main_thread_only"), ("popen", "gevent")):
            name = f"cb/{i}:{C['end']}{':dropped' if C.get('drop_handle') else ''}/{tr}:{be}"
            if only and only not in name:
                continue
            if C["end"] == "kill" and tr == "socket":
                continue  # the socket worker lives in the master's process: killing it is the C04 scenario
            P = dict(C, transport=tr, backend=be)
            harness.run_exploration(rep, PID, name, CbScn, P, {"ps": 1, "free": 0}, max_execs=cap)
    # setcallback only after the conversation is over (delay), then close() of the handle and the gateway's end
    for end in ("kill", "body-end", "error", "close", "exit"):
        for tr in ("popen", "via"):
            name = f"cb/late-then-close:{end}:{tr}"
            if only and only not in name:
                continue
            P = {"n": 2, "k": 0, "end": end, "chan": "new" if end == "close" else "exec", "endmarker": True, "delay": 3.0, "close_after": True, "transport": tr, "backend": "thread"}
            harness.run_exploration(rep, PID, name, CbScn, P, {"ps": 1, "free": 0}, max_execs=cap)
    # the callback itself fails on an item (first / second): the channel ends, the endmarker still comes once
    for at in (0, 1):
        for end in ("body-end", "block", "kill"):
            for tr in ("popen", "via"):
                name = f"cb/raise-at{at}:{end}:{tr}"
                if only and only not in name:
                    continue
                P = {"n": 2, "k": 0, "end": end, "chan": "exec", "endmarker": True, "delay": 0, "cb_raise_at": at, "transport": tr, "backend": "thread"}
                harness.run_exploration(rep, PID, name, CbScn, P, {"ps": 1, "free": 0} if tier == "quick" else {"ps": 2, "free": 1}, max_execs=cap)
    # every endmarker value, the falsy ones included: default schedule + 1 preemption
    for ev in ("none", "zero", "false", "empty"):
        for end in ("body-end", "error"):
            name = f"cb/endval:{ev}:{end}"
            if only and only not in name:
                continue
            P = {"n": 1, "k": 0, "end": end, "chan": "exec", "endmarker": True, "delay": 0, "endval": ev, "transport": "popen", "backend": "thread"}
            harness.run_exploration(rep, PID, name, CbScn, P, {"ps": 1, "free": 0}, max_execs=cap)
        for delay in (0, 3.0):
            name = f"multi/endval:{ev}:d{delay}"
            if only and only not in name:
                continue
            harness.run_exploration(rep, PID, name, MultiScn, {"n": 1, "delay": delay, "endval": ev}, {"ps": 1, "free": 0}, max_execs=cap)
    for n, delay in ((2, 0), (2, 3.0)):
        name = f"multi/n{n}d{delay}"
        if only and only not in name:
            continue
        P = {"n": n, "delay": delay}
        harness.run_exploration(rep, PID, name + "/sync", MultiScn, P, {"ps": 2, "free": 0} if tier == "quick" else {"ps": 2, "free": 2}, max_execs=cap)
        harness.run_exploration(rep, PID, name + "/stmt", MultiScn, P, {"ps": 0, "pl": 1, "free": 0}, stmt=stmt, max_execs=cap)
    return rep.finish()


def replay(path: str) -> int:
    return harness.replay_file(path, SCENARIOS, stmt_for=lambda d: harness.stmt_mask(stmt_pred))
