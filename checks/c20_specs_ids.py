"""C20 -- specs parse faithfully and group ids stay unique."""

from __future__ import annotations

import itertools
import shlex

from engine import evidence
from engine import explorer
from engine import harness
from engine.parallel import pmap

from .common import Session

PID = "C20"

KEY_ALPHA = ["a", ":", "/", " ", "é", "_", "b"]
VAL_ALPHA = ["a", ":", "/", " ", "é", "_", "="]
NAMED_KEYS = ["env", "env:A", "env:", "env:A:B", "id", "popen", "python", "execmodel", "ssh", "chdir", "x y", "env:é"]
KNOWN_ATTRS = ["chdir", "dont_write_bytecode", "execmodel", "id", "installvia", "nice", "popen", "python", "socket", "ssh", "ssh_config", "vagrant_ssh", "via"]


def valid_key(k: str) -> bool:
    return bool(k) and "=" not in k and "//" not in k and not k.startswith("_")


def keys():
    ks = []
    for n in (1, 2):
        for t in itertools.product(KEY_ALPHA, repeat=n):
            k = "".join(t)
            if valid_key(k):
                ks.append(k)
    return ks + NAMED_KEYS


def values():
    vs = [None, ""]  # None = bare key
    for n in (1, 2):
        for t in itertools.product(VAL_ALPHA, repeat=n):
            v = "".join(t)
            if "//" not in v:
                vs.append(v)
    return vs


def compose(pairs):
    parts = []
    for k, v in pairs:
        parts.append(k if v is None else f"{k}={v}")
    for p in parts:
        # the grammar itself is ambiguous where '/' touches a separator
        if p.startswith("/") or p.endswith("/"):
            return None
    return "//".join(parts)


def check_spec(text, pairs):
    """reference semantics, written from the documented format"""
    import execnet

    try:
        spec = execnet.XSpec(text)
    except BaseException as e:  # noqa: BLE001
        return f"XSpec({text!r}) raised {type(e).__name__}: {e}"
    env = {}
    plain = {}
    for k, v in pairs:
        val = True if v is None else v
        if k.startswith("env:"):
            env[k[4:]] = val
        else:
            plain[k] = val
    for k, val in plain.items():
        got = getattr(spec, k, "<missing>")
        if got != val or type(got) is not type(val):
            return f"XSpec({text!r}).{k} == {got!r}, expected {val!r}"
    if spec.env != env:
        return f"XSpec({text!r}).env == {spec.env!r}, expected {env!r}"
    for name in KNOWN_ATTRS + ["foo", "zz"]:
        if name not in plain and getattr(spec, name) is not None:
            return f"XSpec({text!r}).{name} == {getattr(spec, name)!r}, expected None for an absent name"
    if str(spec) != text:
        return f"str(XSpec({text!r})) == {str(spec)!r}"
    other = execnet.XSpec(text)
    if not (spec == other) or spec != other or hash(spec) != hash(other):
        return f"XSpec({text!r}) does not compare/hash equal to an equal-text spec"
    return None


def parse_chunk(chunk):
    bad = {}
    n = 0
    for text, pairs in chunk:
        n += 1
        r = check_spec(text, pairs)
        if r:
            ks = [k for k, _ in pairs]
            cls = "env-key-reserved" if "env" in ks else "parse"
            if cls not in bad or len(text) < len(bad[cls][0]):
                bad[cls] = (text, r)
    return n, bad


def spec_space(tier):
    ks, vs = keys(), values()
    out = []
    for k in ks:
        for v in vs:
            t = compose([(k, v)])
            if t is not None:
                out.append((t, [(k, v)]))
    # two / three entries: all key pairs over a reduced set x value pairs
    ks2 = [k for k in ks if len(k) == 1] + NAMED_KEYS + ["a:", "é ", "b_"]
    vs2 = [None, "", "a", "=", "a=b", ":/", " x", "é"]
    for k1, k2 in itertools.permutations(ks2, 2):
        for v1, v2 in itertools.product(vs2, repeat=2):
            t = compose([(k1, v1), (k2, v2)])
            if t is not None:
                out.append((t, [(k1, v1), (k2, v2)]))
    ks3 = ["a", "b", "env:A", "env:B", "id", "x y", "é"]
    vs3 = [None, "", "v", "="] if tier == "quick" else vs2
    for k3 in itertools.permutations(ks3, 3):
        for v3 in itertools.product(vs3, repeat=3):
            t = compose(list(zip(k3, v3)))
            if t is not None:
                out.append((t, list(zip(k3, v3))))
    return out


def duplicates():
    out = []
    for k in ["a", "id", "popen", "env:A", "env:", "x y", "é", "env:A:B"]:
        for v1, v2 in itertools.product([None, "", "1", "2"], repeat=2):
            for extra in ([], [("z", "9")]):
                for pos in range(len(extra) + 1):
                    pairs = [(k, v1)] + extra[:pos] + [(k, v2)] + extra[pos:]
                    t = compose(pairs)
                    if t:
                        out.append((t, k))
    return out


class IdScn:
    """concurrent makegateway / exit on one group over virtual popen"""

    @staticmethod
    def scenario(w, P):
        S = Session(w, "popen", "thread")

        def main():
            from execnet.multi import Group

            S.group = g = Group(execmodel=S.proc.execmodel)
            pre = []
            for spec in P.get("pre", []):
                pre.append(g.makegateway(spec))
            if P.get("start_faults"):
                # environment fault: this process cannot start one of the threads it asks for
                w.opts["start_faults"] = S.proc
            w.exploring = True

            def snapshot(tag):
                gws = list(g)
                ids = [x.id for x in gws]
                ok = True
                for i, x in enumerate(gws):
                    try:
                        if g[i] is not x and g[i].id != x.id:
                            ok = False
                    except IndexError:
                        pass  # list shrank concurrently
                w.observe("snap", tag, ids, ok)

            def maker(t, specs):
                for spec in specs:
                    try:
                        gw = g.makegateway(spec)
                        w.observe("made", t, spec, gw.id)
                        snapshot(f"m{t}")
                    except BaseException as e:  # noqa: BLE001
                        w.observe("failed", t, spec, type(e).__name__, str(e)[:60])

            def exiter():
                try:
                    pre[0].exit()
                    w.observe("exited", pre[0].id)
                except BaseException as e:  # noqa: BLE001
                    w.observe("exit-exc", type(e).__name__)
                snapshot("x")

            for t, specs in enumerate(P["makers"]):
                S.user(maker, f"maker{t}", (t, specs))
            if P.get("exit"):
                S.user(exiter, "exiter")
            S.join_users()
            w.exploring = False
            w.opts["start_faults"] = None
            gws = list(g)
            ids = [x.id for x in gws]
            cons = all(g[i] is x and g[x.id] is x and x.id in g and x in g for i, x in enumerate(gws)) and len(g) == len(gws)
            w.observe("final", ids, cons)
            # processes: one live child per registered gateway, none for failed calls
            live = sorted(p.name for p in w.procs[1:] if p.alive)
            w.observe("live-procs", len(live), len(gws))
            g.terminate(timeout=2.0)
            w.observe("terminated", sorted(p.name for p in w.procs[1:] if p.alive))

        S.main(main)
        return S

    @staticmethod
    def oracle(w, S, P):
        obs = w.obs
        outcome = tuple(e[3] for e in obs if e[0] == "made") + tuple(e[0] for e in obs if e[0] == "failed")

        def V(key, msg):
            return (f"c20:{key}", f"{msg}\n  params={P}\n  obs={obs}\n  blocked={w.blocked_at_end}\n  stderr={w.stderr.getvalue()[-500:]}"), outcome

        fin = [e for e in obs if e[0] == "final"]
        if not fin:
            return V("hang", "makegateway / exit never finished")
        for e in obs:
            if e[0] == "snap" and len(set(e[2])) != len(e[2]):
                return V("duplicate-live-id", f"two live gateways share an id: {e[2]}")
            if e[0] == "snap" and not e[3]:
                return V("lookup-disagrees", f"index lookup disagrees with iteration: {e}")
        ids, cons = fin[0][1], fin[0][2]
        if len(set(ids)) != len(ids):
            return V("duplicate-live-id", f"two live gateways share an id: {ids}")
        if not cons:
            return V("lookup-disagrees", "lookup by id / index / membership disagrees with iteration order")
        made = [e[3] for e in obs if e[0] == "made"]
        auto = [i for i in made if i.startswith("gw")]
        if len(set(made)) != len(made):
            return V("duplicate-id-handed-out", f"makegateway returned gateways with equal ids: {made}")
        for e in obs:
            if e[0] == "failed" and "id=" not in e[2] and P.get("auto_must_succeed"):
                return V("auto-id-collision", f"makegateway({e[2]!r}) with an automatically allocated id failed: {e[3]}: {e[4]} (automatic ids must be unique under concurrent creation)")
            if e[0] == "failed" and e[3] in ("Teardown", "ProcExit", "InternalError"):
                return V("failed-makegateway-exception", f"makegateway({e[2]!r}) failed with {e[3]}: {e[4]}")
        lp = [e for e in obs if e[0] == "live-procs"][0]
        nexited = sum(1 for e in obs if e[0] == "exited")  # exit() defers reaping to terminate()
        if not lp[2] <= lp[1] <= lp[2] + nexited:
            return V("process-left-behind", f"{lp[1]} live child processes for {lp[2]} registered gateways (a failed makegateway must leave no process behind)")
        term = [e for e in obs if e[0] == "terminated"]
        if not term or term[0][1]:
            return V("process-left-behind", f"after terminate: {term}")
        return None, outcome


class HistScn:
    """a sequential history of makegateway / exit calls on one group (ids reused after an exit, exits
    repeated), compared after every step with a plain list model: iteration order, lookup by index /
    id / object, membership by id / object -- for every gateway object ever created"""

    @staticmethod
    def scenario(w, P):
        S = Session(w, "popen", "thread")

        def main():
            from execnet.multi import Group

            S.group = g = Group(execmodel=S.proc.execmodel)
            objs = []  # every gateway object ever created
            live = []  # the model: indices into objs, in registration order
            nauto = 0
            bad = S.ctx.setdefault("bad", [])

            def lookup(key):
                try:
                    return g[key]
                except (KeyError, IndexError):
                    return None

            def compare(step):
                want = [objs[i] for i in live]
                got = list(g)
                if [x.id for x in got] != [x.id for x in want] or any(a is not b for a, b in zip(got, want)) or len(g) != len(want):
                    bad.append((step, "iteration", [x.id for x in got], [x.id for x in want]))
                    return
                for i, x in enumerate(want):
                    if lookup(i) is not x:
                        bad.append((step, "index-lookup", i, x.id))
                byid = {x.id: x for x in want}
                for k, o in enumerate(objs):
                    is_live = k in live
                    if (o in g) != is_live:
                        bad.append((step, "membership-by-object", f"obj#{k} id={o.id} live={is_live}", o in g))
                    r = lookup(o)
                    if (r is o) != is_live or (not is_live and r is not None):
                        bad.append((step, "lookup-by-object", f"obj#{k} id={o.id} live={is_live}", None if r is None else f"returned the object registered as {r.id}, same object: {r is o}"))
                    if (o.id in g) != (o.id in byid):
                        bad.append((step, "membership-by-id", o.id, o.id in g))
                    if lookup(o.id) is not byid.get(o.id):
                        bad.append((step, "lookup-by-id", o.id))

            for step, op in enumerate(P["ops"]):
                try:
                    if op[0] == "m":
                        spec = "popen" if op == "mx" else "popen//id=" + op[1]
                        want_id = spec.split("id=")[1] if "id=" in spec else None
                        taken = want_id is not None and any(objs[i].id == want_id for i in live)
                        try:
                            gw = g.makegateway(spec)
                        except ValueError:
                            if not taken:
                                bad.append((step, "makegateway-refused", spec))
                            continue
                        if taken:
                            bad.append((step, "taken-id-accepted", spec))
                        objs.append(gw)
                        live.append(len(objs) - 1)
                    elif op == "ea":
                        # iterate over the group and exit every member met on the way: iteration yields every
                        # member that was there when it started, in index order
                        want_ids = [objs[i].id for i in live]
                        seen_ids = []
                        for x in g:
                            seen_ids.append(x.id)
                            x.exit()
                        if seen_ids != want_ids:
                            bad.append((step, "iteration-while-exiting", seen_ids, want_ids))
                        live[:] = []
                    else:
                        k = int(op[1])
                        objs[k].exit()
                        if k in live:
                            live.remove(k)
                except BaseException as e:  # noqa: BLE001
                    bad.append((step, "exception", op, type(e).__name__, str(e)[:80]))
                    break
                compare(step)
            S.ctx["done"] = True
            g.terminate(timeout=2.0)
            # gateways that had exited before are not waited for by terminate(): give them their moment
            S.proc.execmodel.sleep(3.0)
            S.ctx["left"] = sorted(p.name for p in w.procs[1:] if p.alive)

        S.main(main)
        return S

    @staticmethod
    def oracle(w, S, P):
        if not S.ctx.get("done") or "left" not in S.ctx:
            return ("c20:history-hang", f"ops={P['ops']} blocked={w.blocked_at_end} bad={S.ctx.get('bad')}"), 0
        bad = S.ctx["bad"]
        if bad:
            step, kind = bad[0][0], bad[0][1]
            return (f"c20:history-{kind}", f"history {P['ops']}: after step {step} ({P['ops'][step]}) {kind}: {bad[0][2:]} (all: {bad[:4]})"), 0
        if S.ctx["left"]:
            return ("c20:process-left-behind", f"history {P['ops']}: after terminate {S.ctx['left']}"), 0
        return None, 1


def hist_chunk(chunk):
    n = 0
    for ops in chunk:
        n += 1
        r = explorer.run_once(HistScn.scenario, HistScn.oracle, {"ops": list(ops)}, [], want_fp=False)
        if r.violation is not None:
            return n, (list(ops), r.violation)
    return n, None


def histories(depth):
    alphabet = ["ma", "mb", "mx", "e0", "e1", "e2", "ea"]
    out = []
    for d in range(1, depth + 1):
        for seq in itertools.product(alphabet, repeat=d):
            made = 0
            ok = True
            for op in seq:
                if op[0] == "m":
                    made += 1  # an upper bound: a refused call creates nothing, the scenario copes
                elif op == "ea":
                    continue
                elif int(op[1]) >= made:
                    ok = False
                    break
            # refused makes shift object numbers: keep only sequences whose exits are valid under the model
            if ok and _valid(seq):
                out.append(seq)
    return out


def _valid(seq):
    live, ids = [], []
    for op in seq:
        if op[0] == "m":
            want = None if op == "mx" else op[1]
            if want is not None and any(ids[i] == want for i in live):
                continue
            ids.append(want if want is not None else f"auto{len(ids)}")
            live.append(len(ids) - 1)
        elif op == "ea":
            live = []
        else:
            k = int(op[1])
            if k >= len(ids):
                return False
            if k in live:
                live.remove(k)
    return True


SCENARIOS = {"ids": IdScn, "hist": HistScn}


def stmt_pred(m, q, l):
    return m == "multi" and q.startswith("Group.")


def run(tier: str, only=None) -> int:
    import execnet
    from execnet import gateway_io

    rep = evidence.Report(PID, tier, "model_checking")
    rep.rule.append("all 1-entry specs over keys of length 1-2 / values of length 0-2 from a 7-symbol alphabet (+ named keys), 2- and 3-entry specs over reduced sets, every duplicate-key shape; concurrent makegateway / exit on one group under all interleavings within bounds")
    space = spec_space(tier)
    res = pmap(parse_chunk, [space[i::32] for i in range(32)])
    rep.add_enumeration("spec-parsing", sum(n for n, _ in res), len(space))
    rep.cov["evaluations"] += 0
    merged = {}
    for _, bad in res:
        for cls, (text, msg) in bad.items():
            if cls not in merged or len(text) < len(merged[cls][0]):
                merged[cls] = (text, msg)
    for cls, (text, msg) in merged.items():
        rep.violation(f"c20:{cls}", msg, {"check": PID, "sub": "parse", "spec": text})
    rep.sample({"spec": space[len(space) // 2][0]})
    # duplicates
    dups = duplicates()
    for text, k in dups:
        try:
            s = execnet.XSpec(text)
            key = "c20:duplicate-env-key-accepted" if k.startswith("env:") else "c20:duplicate-key-accepted"
            rep.violation(key, f"XSpec({text!r}) accepted a repeated key {k!r}: env={s.env}", {"check": PID, "sub": "dup", "spec": text})
        except ValueError:
            pass
        except BaseException as e:  # noqa: BLE001
            rep.violation("c20:duplicate-wrong-exception", f"XSpec({text!r}) raised {type(e).__name__}", {"check": PID, "sub": "dup", "spec": text})
    rep.add_enumeration("duplicate-keys", len(dups), len(dups))
    # invalid keys
    for text in ("_a=1", "popen//_x", "_"):
        try:
            execnet.XSpec(text)
            rep.violation("c20:underscore-key-accepted", f"XSpec({text!r}) accepted", {"check": PID, "sub": "underscore"})
        except (AttributeError, ValueError):
            pass
    # python= splitting into argv
    n = 0
    for py in ["python", "sudo -u test python", "/hans\\ alt/bin/python", '"/u/test me/python" -e', "py -S -E"]:
        for dwb in (False, True):
            n += 1
            spec = execnet.XSpec(f"popen//python={py}" + ("//dont_write_bytecode" if dwb else ""))
            args = gateway_io.popen_args(spec)
            want = shlex.split(py) + ["-u"] + (["-B"] if dwb else []) + ["-c", args[-1]]
            if args != want or "sys.stdin.readline()" not in args[-1]:
                rep.violation("c20:popen-args", f"popen_args({spec}) == {args}, expected {want}", {"check": PID, "sub": "argv"})
    rep.add_enumeration("popen-argv", n, n)
    # sequential call histories against a list model (ids reused after exit, repeated exits)
    if not only or "hist" in only:
        hs = histories(5 if tier == "quick" else 6)
        res = pmap(hist_chunk, [hs[i::64] for i in range(64)])
        rep.add_enumeration("group-call-histories", sum(n for n, _ in res), len(hs), {"alphabet": "makegateway id=a / id=b / automatic id, exit of the 1st/2nd/3rd gateway ever made", "depth": 5 if tier == "quick" else 6})
        bads = sorted([b for _, b in res if b], key=lambda b: len(b[0]))
        if bads:
            ops, v = bads[0]
            rep.violation(v[0], v[1], {"check": PID, "sub": "hist", "params": {"ops": ops}, "choices": [], "stmt": False})
    # group ids under concurrency
    stmt = harness.stmt_mask(stmt_pred)
    cap = 400000 if tier == "quick" else 6000000
    scen = [
        ("auto-auto", {"makers": [["popen"], ["popen"]], "auto_must_succeed": True}),
        ("auto-auto-explicit", {"pre": ["popen//id=x"], "makers": [["popen", "popen"], ["popen"]], "auto_must_succeed": True}),
        ("explicit-live", {"pre": ["popen//id=p"], "makers": [["popen//id=p"], ["popen"]]}),
        ("explicit-next-auto", {"makers": [["popen//id=gw0"], ["popen"]]}),
        ("exit-race", {"pre": ["popen//id=gw0x", "popen"], "makers": [["popen"], ["popen//id=q"]], "exit": True, "auto_must_succeed": True}),
        ("same-explicit-twice", {"makers": [["popen//id=same"], ["popen//id=same"]]}),
    ]
    for name, P in scen:
        if only and only not in name:
            continue
        harness.run_exploration(rep, PID, f"ids/{name}/sync", IdScn, P, {"ps": 1, "free": 1} if tier == "quick" else {"ps": 2, "free": 1}, max_execs=cap)
        harness.run_exploration(rep, PID, f"ids/{name}/stmt", IdScn, P, {"ps": 0, "pl": 2 if name in ("auto-auto", "same-explicit-twice") else 1, "free": 0}, stmt=stmt, max_execs=cap)
    rep.assumptions += ["compositions in which '/' touches a '//' separator are outside the quantifier (the grammar is ambiguous there)", "virtual popen: process start-up is modelled"]
    return rep.finish()


def replay(path: str) -> int:
    import json

    d = json.load(open(path))
    if d.get("sub", "").startswith("ids/") or d.get("sub") == "hist":
        return harness.replay_file(path, SCENARIOS, stmt_for=lambda d: harness.stmt_mask(stmt_pred))
    print(d)
    return 1
