"""C05 -- Group.terminate(timeout) returns promptly and leaves no local child behind."""

from __future__ import annotations

import os
import signal
import subprocess
import sys
import time

from engine import evidence
from engine import harness
from engine import vworld
from engine.parallel import pmap

from .common import Session

PID = "C05"

STATES = {
    "idle": None,
    "recv": "channel.receive()",
    "sleep": "em = channel.gateway.execmodel\nwhile True:\n    em.sleep(0.2)",
    "busy": "em = channel.gateway.execmodel\nwhile True:\n    em.sleep(0.001)",
    "swallow": "em = channel.gateway.execmodel\nwhile True:\n    try:\n        em.sleep(0.2)\n    except KeyboardInterrupt:\n        pass",
    "daemon": "em = channel.gateway.execmodel\ndef spin():\n    while True:\n        em.sleep(0.2)\nem.start(spin)\nchannel.receive()",
    "sending": "em = channel.gateway.execmodel\nwhile True:\n    channel.send(b'x' * 100)\n    em.sleep(0.01)",
    # a non-daemon thread that outlives its task: the worker closes the connection but the process stays
    "nondaemon": "em = channel.gateway.execmodel\ndef linger():\n    for i in range(3000):\n        em.sleep(0.2)\nem.start_nondaemon(linger)",
    "stopped": "channel.receive()",  # + SIGSTOP
    "dead": "channel.receive()",  # + SIGKILL before terminate
}

TOPOLOGIES = {
    "popen": ["popen//id=a//execmodel={m}"],
    "popen2": ["popen//id=a//execmodel={m}", "popen//id=b//execmodel={m}"],
    "via": ["popen//id=m//execmodel=thread", "popen//via=m//id=a//execmodel={m}"],
    "socket": ["popen//id=m//execmodel={m}", "socket//installvia=m//id=a"],
    # a nested proxy chain: a is reached through b which is reached through m
    "via2": ["popen//id=m//execmodel=thread", "popen//via=m//id=b//execmodel=thread", "popen//via=b//id=a//execmodel={m}"],
    # a proxy chain next to an independent direct member
    "via+popen": ["popen//id=m//execmodel=thread", "popen//via=m//id=a//execmodel={m}", "popen//id=b//execmodel={m}"],
}


class TermScn:
    """P: topo, model, state, timeout, moment ("settled" | "immediately")"""

    @staticmethod
    def scenario(w, P):
        S = Session(w, "popen", P["model"])

        def main():
            from execnet.multi import Group

            S.group = g = Group(execmodel=S.proc.execmodel)
            em = S.proc.execmodel
            gws = [g.makegateway(s.format(m=P["model"])) for s in TOPOLOGIES[P["topo"]]]
            target = g["a"]
            st = P["state"]
            w.exploring = P.get("moment") == "immediately"
            chans = []
            if STATES[st] is not None:
                chans.append(target.remote_exec(STATES[st]))
            if P["topo"] == "popen2":
                chans.append(g["b"].remote_exec(STATES["sleep"]))
            if P.get("moment") != "immediately":
                em.sleep(1.0)
            # the virtual process hosting worker "a"
            procs = w.procs
            host = {"popen": 1, "popen2": 1, "via": 2, "socket": 1, "via2": 3, "via+popen": 2}[P["topo"]]
            if P.get("victim") == "master":
                host = 1  # the state hits the via-gateway (the first child) instead of the proxied worker
            if st == "stopped":
                vworld.signal_proc(procs[host], 19)
            elif st == "dead":
                vworld.signal_proc(procs[host], 9)
                em.sleep(0.5)
            for gid in P.get("pre_exit", ()):
                # a member that was exit()ed earlier (not yet joined) is still terminate()'s business
                g[gid].exit()
                if P.get("late_frame") and chans:
                    # one more frame for the gateway that was just exit()ed (a late send / close / finalizer)
                    try:
                        chans[0].send("late")
                    except BaseException:  # noqa: BLE001
                        pass
                em.sleep(P.get("pre_exit_pause", 0.0))
            w.exploring = True
            t0 = w.now
            try:
                g.terminate(timeout=P["timeout"])
            except BaseException as e:  # noqa: BLE001
                S.ctx["exc"] = f"{type(e).__name__}: {str(e)[:200]}"
            S.ctx["elapsed"] = w.now - t0
            S.ctx["len"] = len(g)
            w.exploring = False
            S.ctx["done"] = True
            # second terminate must be a cheap no-op
            t1 = w.now
            g.terminate(timeout=P["timeout"])
            S.ctx["second"] = w.now - t1
            # children started by *this* process
            S.ctx["local_children"] = [(c.proc.name, c.proc.alive) for c in w.children if c.proc.parent is S.proc]
            # every process started for a member gateway in this (all-local) topology, via-subs included
            S.ctx["all_children"] = [(c.proc.name, c.proc.alive) for c in w.children]
            del chans

        S.main(main)
        return S

    @staticmethod
    def oracle(w, S, P):
        ctx = S.ctx
        t = P["timeout"]
        rounds = {"via": 2, "via+popen": 2, "via2": 3}.get(P["topo"], 1)
        bound = rounds * 4 * t + 0.5
        outcome = (round(ctx.get("elapsed", -1), 2), tuple(a for _, a in ctx.get("local_children", [])))

        def V(key, msg):
            if P.get("victim") == "master":
                # the via-gateway itself is the one in trouble: its own class of findings
                key = f"via-master-{P['state']}:{key}"
            return (f"c05:{key}", f"{msg}\n  params={P}\n  ctx={ {k: v for k, v in ctx.items()} }\n  blocked={w.blocked_at_end}\n  log tail={w.logl[-6:]}\n  stderr={w.stderr.getvalue()[-500:]}"), outcome

        if not ctx.get("done"):
            return V("terminate-hang", "terminate() never returned")
        if ctx.get("exc"):
            return V("terminate-raised", f"terminate({t}) raised {ctx['exc']}")
        if ctx["elapsed"] > bound:
            return V("terminate-slow", f"terminate({t}) took {ctx['elapsed']} virtual s, bound {bound}")
        if ctx["len"] != 0:
            return V("group-not-empty", f"len(group) == {ctx['len']} after terminate")
        alive = [n for n, a in ctx["local_children"] if a]
        if alive:
            return V("child-left-behind", f"locally started child processes still alive after terminate: {alive}")
        alive = [n for n, a in ctx.get("all_children", []) if a]
        # beyond the letter of C05 ("started locally"): kept for the states where execnet itself
        # promises it (the sub kills itself); a proxied child that lingers on a non-daemon thread
        # can only be killed through the forwarder, whose receiver is blocked in RIO_WAIT (XXX in
        # serve_proxy_io) -- observed, not demanded (DESIGN 9.3)
        if alive and P["state"] != "nondaemon":
            return V("proxied-child-left-behind", f"processes started for member gateways (through a via gateway) still alive after terminate: {alive}")
        if ctx.get("second", 0) > 0.01:
            return V("second-terminate", f"a second terminate() on the empty group took {ctx['second']} s")
        return None, outcome


SCENARIOS = {"term": TermScn}

# ---------------------------------------------------------------------------
# real matrix (conformance of the virtual process / signal model)
# ---------------------------------------------------------------------------
REAL_CELL = r'''
import os, sys, time, signal, json
sys.path.insert(0, "/repo/src")
import execnet
assert execnet.__file__.startswith("/repo/src")
model, state, timeout = sys.argv[1], sys.argv[2], float(sys.argv[3])
SRC = {
 "idle": None,
 "recv": "channel.receive()",
 "sleep": "import time\nwhile True:\n    time.sleep(0.2)",
 "busy": "while True:\n    pass",
 "swallow": "import time\nwhile True:\n    try:\n        time.sleep(0.2)\n    except KeyboardInterrupt:\n        pass",
 "daemon": "import threading, time\ndef spin():\n    while True:\n        time.sleep(0.2)\nthreading.Thread(target=spin, daemon=True).start()\nchannel.receive()",
 "sending": "while True:\n    channel.send(b'x' * 100)",
 "nondaemon": "import threading, time\nthreading.Thread(target=time.sleep, args=(60,)).start()",
 "stopped": "channel.receive()",
 "dead": "channel.receive()",
 "failed-id": None,
 "failed-bootstrap": None,
}
g = execnet.Group()
gw = g.makegateway("popen//id=a//execmodel=%s" % model)
pid = gw.remote_exec("import os; channel.send(os.getpid())").receive()
pids = [pid]
if state in ("failed-id", "failed-bootstrap"):
    before = set(os.listdir("/proc"))
    badspec = "popen//id=a"
    if state == "failed-bootstrap":
        # a child that is not a Python interpreter: it ignores its arguments and echoes the bootstrap
        # line back, so the handshake fails after the process exists
        import tempfile
        fake = os.path.join(tempfile.mkdtemp(), "notpython")
        with open(fake, "w") as f:
            f.write("#!/bin/sh\nexec cat\n")
        os.chmod(fake, 0o755)
        badspec = "popen//python=%s" % fake
    try:
        g.makegateway(badspec)
        failed = False
    except Exception as e:
        failed = True
    time.sleep(0.5)
    me = os.getpid()
    kids = []
    for p in os.listdir("/proc"):
        if p.isdigit() and p not in before:
            try:
                st = open("/proc/%s/stat" % p).read().split()
                if int(st[3]) == me and st[2] != "Z":
                    kids.append(int(p))
            except OSError:
                pass
    print(json.dumps({"failed": failed, "extra_children": [k for k in kids if k != pid]}))
    for k in kids:
        if k != pid:
            try: os.kill(k, signal.SIGKILL)
            except OSError: pass
    g.terminate(1)
    sys.exit(0)
def alive(p):
    try:
        st = open("/proc/%d/stat" % p).read().split()
        return st[2] != "Z"
    except OSError:
        return False
if state == "atexit":
    # the initiator simply ends: execnet's own atexit hook calls terminate(timeout=1.0)
    import subprocess
    g.terminate(1)
    code = ("import sys\nsys.path.insert(0, '/repo/src')\nimport execnet\n"
            "gw = execnet.makegateway('popen//execmodel=%s')\n"
            "ch = gw.remote_exec(%r)\nprint(ch.receive(), flush=True)\n") % (model, "import os\nchannel.send(os.getpid())\n" + SRC["swallow"])
    import tempfile
    fo, fe = tempfile.TemporaryFile("w+"), tempfile.TemporaryFile("w+")  # no pipes: the worker inherits them
    t = time.time()
    p = subprocess.Popen([sys.executable, "-c", code], stdout=fo, stderr=fe, stdin=subprocess.DEVNULL)
    p.wait(40)
    dt = time.time() - t
    fo.seek(0); fe.seek(0)
    wpid = int(fo.read().split()[0])
    err = fe.read().strip()
    time.sleep(0.3)
    # when terminate() has returned the child has exited: look right after the initiator is gone
    left = [wpid] if alive(wpid) else []
    print(json.dumps({"elapsed": round(dt, 2), "len": 0, "alive": left, "stderr": err.splitlines()[-1][:120] if err else ""}))
    for x in left:
        try: os.kill(x, signal.SIGKILL)
        except OSError: pass
    sys.exit(0)
if SRC[state]:
    ch = gw.remote_exec(SRC[state])
time.sleep(0.5)
if state == "stopped":
    os.kill(pid, signal.SIGSTOP)
if state == "dead":
    os.kill(pid, signal.SIGKILL); time.sleep(0.3)
t = time.time()
g.terminate(timeout)
dt = time.time() - t
def alive(p):
    try:
        st = open("/proc/%d/stat" % p).read().split()
        return st[2] != "Z"
    except OSError:
        return False
time.sleep(0.2)
left = [p for p in pids if alive(p)]
print(json.dumps({"elapsed": round(dt, 2), "len": len(g), "alive": left}))
for p in left:  # reported above; never leave a (possibly stopped) child behind the check itself
    try: os.kill(p, signal.SIGKILL)
    except OSError: pass
'''


def real_cell(cell):
    model, state, timeout = cell
    env = dict(os.environ)
    env["PYTHONPATH"] = "/repo/src"
    t = time.time()
    try:
        r = subprocess.run([sys.executable, "-c", REAL_CELL, model, state, str(timeout)], capture_output=True, text=True, timeout=60, env=env, stdin=subprocess.DEVNULL, start_new_session=True)
        out = r.stdout.strip().splitlines()[-1] if r.stdout.strip() else f"NO-OUTPUT rc={r.returncode} {r.stderr[-300:]}"
    except subprocess.TimeoutExpired:
        out = "TIMEOUT"
    return cell, out, time.time() - t


def run(tier: str, only=None) -> int:
    import json

    rep = evidence.Report(PID, tier, "model_checking")
    rep.rule.append("remote state x topology x exec model x timeout x moment of terminate, in the virtual world under all interleavings within bounds (virtual clock runs the kill ladder); conformance cells on real processes")
    rep.assumptions += ["virtual process model: SIGSTOP freezes all threads, SIGKILL/kill() ends the process at once and closes its descriptors, wait() returns when the process ended", "'small multiple' = 4 x timeout per exit round (the bound safe_terminate documents), + 0.5 s virtual / + 5 s real slack", "helper threads that safe_terminate abandons by design are not counted as hangs"]
    cap = 300000 if tier == "quick" else 5000000
    n = 0
    for topo in TOPOLOGIES:
        for model in ("thread", "main_thread_only", "gevent"):
            for state in STATES:
                for timeout in (0.5, 2.0):
                    for moment in ("settled", "immediately"):
                        name = f"term/{topo}:{model}:{state}:t{timeout}:{moment}"
                        if only and only not in name:
                            continue
                        if moment == "immediately" and state in ("stopped", "dead"):
                            continue
                        if tier == "quick":
                            if topo in ("via2", "via+popen") and (model != "thread" or state not in ("idle", "sleep", "swallow", "stopped", "nondaemon") or moment != "settled"):
                                continue
                            if timeout == 2.0 and not (topo == "popen" and model == "thread"):
                                continue
                            if model == "gevent" and topo != "popen":
                                continue
                            if model == "main_thread_only" and topo in ("popen2",):
                                continue
                            if moment == "immediately" and (topo != "popen" or model == "gevent"):
                                continue
                        else:
                            # thorough: the full product is ~700 cells; keep every state on every topology and
                            # exec model, thin out the crossings that add the least
                            if model == "gevent" and topo not in ("popen", "popen2"):
                                continue
                            if timeout == 2.0 and topo in ("via2", "via+popen", "socket"):
                                continue
                            if moment == "immediately" and topo in ("via2", "via+popen", "popen2"):
                                continue
                        P = {"topo": topo, "model": model, "state": state, "timeout": timeout, "moment": moment}
                        if n % 25 == 0:
                            rep.sample({"sub": name, "params": P})
                        n += 1
                        bounds = {"ps": 1, "free": 1} if (topo == "popen" or (tier == "thorough" and topo in ("via", "socket"))) else {"ps": 0, "free": 1}
                        harness.run_exploration(rep, PID, name, TermScn, P, bounds, max_execs=cap, horizon=60000)
    # the via-gateway itself is dead / stopped while it still has a proxied member
    for topo in ("via", "via2", "via+popen"):
        for state in ("dead", "stopped"):
            name = f"term-master/{topo}:{state}"
            if only and only not in name:
                continue
            P = {"topo": topo, "model": "thread", "state": state, "timeout": 0.5, "moment": "settled", "victim": "master"}
            harness.run_exploration(rep, PID, name, TermScn, P, {"ps": 0, "free": 1} if tier == "quick" else {"ps": 1, "free": 1}, max_execs=cap, horizon=60000)
    # members that were exit()ed before terminate() is called (right before / a while before)
    for topo in TOPOLOGIES:
        for state in ("idle", "sleep", "swallow"):
            for pause in (0.0, 1.0):
                name = f"term-after-exit/{topo}:{state}:pause{pause}"
                if only and only not in name:
                    continue
                if tier == "quick" and state == "sleep":
                    continue
                P = {"topo": topo, "model": "thread", "state": state, "timeout": 0.5, "moment": "settled", "pre_exit": ["a"], "pre_exit_pause": pause}
                harness.run_exploration(rep, PID, name, TermScn, P, {"ps": 0, "free": 1} if tier == "quick" else {"ps": 1, "free": 1}, max_execs=cap, horizon=60000)
                if state != "idle":
                    harness.run_exploration(rep, PID, name + ":late-frame", TermScn, dict(P, late_frame=True), {"ps": 0, "free": 1}, max_execs=cap, horizon=60000)
    # a failing makegateway (id taken, sequentially or by a concurrent call) leaves no process behind
    from .c20_specs_ids import IdScn
    from .c20_specs_ids import stmt_pred as id_stmt_pred

    class FailScn:
        scenario = staticmethod(IdScn.scenario)

        @staticmethod
        def oracle(w, S, P):
            v, out = IdScn.oracle(w, S, P)
            if v is not None:
                return ("c05:makegateway-" + v[0].split(":", 1)[1], v[1]), out
            return None, out

    SCENARIOS["fail"] = FailScn
    stmt = harness.stmt_mask(id_stmt_pred)
    for fname, FP in (
        ("explicit-live", {"pre": ["popen//id=p"], "makers": [["popen//id=p"], ["popen"]]}),
        ("explicit-next-auto", {"makers": [["popen//id=gw0"], ["popen"]]}),
        ("same-explicit-twice", {"makers": [["popen//id=same"], ["popen//id=same"]]}),
        # environment fault: a thread this process needs for the new gateway cannot be started
        ("thread-start-fails", {"makers": [["popen", "popen"]], "start_faults": True, "env": 1}),
        ("thread-start-fails-2", {"pre": ["popen//id=p"], "makers": [["popen"], ["popen//id=q"]], "start_faults": True, "env": 1}),
    ):
        if only and "fail" not in only:
            continue
        if FP.get("env"):
            harness.run_exploration(rep, PID, f"fail/{fname}/sync", FailScn, FP, {"ps": 0, "env": 1, "free": 1} if tier == "quick" else {"ps": 1, "env": 1, "free": 1}, max_execs=cap)
            continue
        harness.run_exploration(rep, PID, f"fail/{fname}/sync", FailScn, FP, {"ps": 1, "free": 1} if tier == "quick" else {"ps": 2, "free": 1}, max_execs=cap)
        harness.run_exploration(rep, PID, f"fail/{fname}/stmt", FailScn, FP, {"ps": 0, "pl": 2, "free": 0}, stmt=stmt, max_execs=cap)
    # real cells
    if not only or "real" in only:
        cells = [(m, s, 0.5) for m in ("thread", "main_thread_only") for s in list(STATES) + ["failed-id"]]
        cells.append(("thread", "failed-bootstrap", 0.5))
        cells.append(("thread", "atexit", 1.0))
        if tier == "thorough":
            cells += [(m, s, 2.0) for m in ("thread", "main_thread_only") for s in STATES]
        res = pmap(lambda chunk: [real_cell(c) for c in chunk], [cells[i::16] for i in range(16)])
        for chunk in res:
            for cell, out, wall in chunk:
                model, state, timeout = cell
                bad = None
                try:
                    d = json.loads(out)
                except ValueError:
                    d = None
                    bad = f"cell produced {out!r}"
                if d is not None:
                    if state in ("failed-id", "failed-bootstrap"):
                        if not d["failed"] or d["extra_children"]:
                            bad = f"makegateway that must fail ({state}): failed={d['failed']}, extra live children={d['extra_children']}"
                    elif d["elapsed"] > 4 * timeout + 5 or d["len"] != 0 or d["alive"]:
                        bad = f"terminate({timeout}) took {d['elapsed']} s, len(group)={d['len']}, live child pids={d['alive']}" + (f" (the initiator ended without calling terminate: execnet's atexit hook did; its stderr ends with: {d.get('stderr')})" if state == "atexit" else "")
                if bad:
                    again = real_cell(cell)[1]
                    rep.violation(f"c05:real-{state}", f"real cell {cell}: {bad}; re-run: {again}", {"check": PID, "sub": "real", "cell": list(cell)})
        rep.add_enumeration("real-process-cells", len(cells), len(cells))
    return rep.finish()


def replay(path: str) -> int:
    from .c20_specs_ids import IdScn
    from .c20_specs_ids import stmt_pred as id_stmt_pred

    SCENARIOS["fail"] = IdScn
    return harness.replay_file(path, SCENARIOS, stmt_for=lambda d: harness.stmt_mask(id_stmt_pred))
