"""C07 -- remote failures surface as RemoteError on that channel only."""

from __future__ import annotations

from engine import evidence
from engine import harness

from .common import Session

PID = "C07"

EXC_SRC = {
    "ValueError": 'ValueError("boom-x")',
    "ZeroDivisionError": "ZeroDivisionError('division by zero')",
    "Custom": "type('MyCustomError', (Exception,), {})('custom-msg')",
    "SystemExit": "SystemExit(3)",
    # exceptions that derive from BaseException only
    "CustomBase": "type('MyBaseError', (BaseException,), {})('base-msg')",
    "GeneratorExit": "GeneratorExit('gen-exit')",
    # a message that cannot be encoded as UTF-8 (lone surrogate, e.g. from an os.fsdecode()d file name)
    "Surrogate": "ValueError('bad \\udcff name')",
}
EXC_TEXT = {
    "ValueError": ("ValueError", "boom-x"),
    "ZeroDivisionError": ("ZeroDivisionError", "division by zero"),
    "Custom": ("MyCustomError", "custom-msg"),
    "SystemExit": ("SystemExit", "3"),
    "CustomBase": ("MyBaseError", "base-msg"),
    "GeneratorExit": ("GeneratorExit", "gen-exit"),
    "Surrogate": ("ValueError", "bad \\udcff name"),
}

BODY_RAISES = '''
spec = {spec!r}
for k in range(spec["i"]):
    channel.send((7, k))
raise {exc}  # MARK-RAISE
'''

BODY_CB_WORKER = '''
em = channel.gateway.execmodel
W = em.world
spec = {spec!r}
c = channel.receive()
seen = []
def cb(item):
    if len(seen) == spec["i"]:
        raise {exc}  # MARK-RAISE
    seen.append(item)
c.setcallback(cb)
if spec["dropped"]:
    del c
    channel.send("ready")
    em.sleep(3.0)
else:
    channel.send("ready")
    try:
        c.waitclose(5.0)
        W.observe("own-waitclose", "returned")
    except BaseException as e:
        W.observe("own-waitclose", type(e).__name__, isinstance(e, Exception))
    try:
        c.receive(timeout=0)
        W.observe("own-receive", "returned")
    except BaseException as e:
        W.observe("own-receive", type(e).__name__, isinstance(e, Exception))
W.observe("worker-seen", seen)
'''

BODY_PEER_OF_INIT_CB = '''
em = channel.gateway.execmodel
W = em.world
spec = {spec!r}
sent = 0
try:
    for k in range(spec["n"]):
        channel.send((7, k))
        sent += 1
except OSError as e:
    W.observe("peer-send-oserror", sent)
try:
    channel.waitclose(5.0)
    W.observe("peer-waitclose", "returned")
except BaseException as e:
    W.observe("peer-waitclose", type(e).__name__, str(e))
'''

SIBLING = '''
for x in channel:
    channel.send((8, x))
'''


class ErrScn:
    """P: kind ("body" | "cb-worker" | "cb-init"), n, i, exc, dropped, transport, backend"""

    @staticmethod
    def scenario(w, P):
        S = Session(w, P.get("transport", "popen"), P.get("backend", "thread"))

        def peer_watch(ch, tag):
            """receive everything, then the error, then EOF"""
            got = []
            errs = []
            for _ in range(P["n"] + 4):
                try:
                    got.append(ch.receive(timeout=10))
                except ch.RemoteError as e:
                    errs.append(("RemoteError", str(e)))
                except EOFError:
                    errs.append(("EOFError", ""))
                    if len(errs) >= 3:
                        break
                except BaseException as e:  # noqa: BLE001
                    errs.append((type(e).__name__, str(e)[:100]))
                    break
            w.observe(tag, got, errs)
            try:
                ch.waitclose(5)
                w.observe(tag + "-waitclose", "returned")
            except BaseException as e:  # noqa: BLE001
                w.observe(tag + "-waitclose", type(e).__name__)

        def main():
            gw = S.open()
            if P.get("reconf"):
                # gateway-wide string coercion: error texts must not depend on it
                gw.reconfigure(**P["reconf"])
            em = S.proc.execmodel
            spec = {"n": P["n"], "i": P["i"], "dropped": P["dropped"]}
            exc = EXC_SRC[P["exc"]]
            use_sibling = P.get("sibling", True)
            sib = gw.remote_exec(SIBLING) if use_sibling else None
            kind = P["kind"]
            w.exploring = True

            def sibling():
                out = []
                try:
                    for x in (1, 2):
                        sib.send(x)
                        out.append(sib.receive(timeout=10))
                except BaseException as e:  # noqa: BLE001
                    out.append(("exc", type(e).__name__, str(e)[:80]))
                w.observe("sibling", out)

            if use_sibling:
                S.user(sibling, "sibling")
            if kind == "body":
                ch = gw.remote_exec(BODY_RAISES.format(spec=spec, exc=exc))
                peer_watch(ch, "peer")
            elif kind == "cb-worker":
                ctl = gw.remote_exec(BODY_CB_WORKER.format(spec=spec, exc=exc))
                c = gw.newchannel()
                ctl.send(c)
                ctl.receive()
                try:
                    for k in range(P["n"]):
                        c.send((7, k))
                except OSError:
                    w.observe("init-send-oserror")
                peer_watch(c, "peer")
                try:
                    ctl.waitclose(10)
                    w.observe("ctl", "closed")
                except BaseException as e:  # noqa: BLE001
                    w.observe("ctl", type(e).__name__, str(e)[-300:])
            else:
                ch = gw.remote_exec(BODY_PEER_OF_INIT_CB.format(spec=spec))
                seen = []

                def cb(item):
                    if len(seen) == P["i"]:
                        raise eval(exc)  # MARK-RAISE-INIT
                    seen.append(item)

                try:
                    ch.setcallback(cb)
                except BaseException as e:  # noqa: BLE001
                    # an already queued item made the callback raise inside
                    # setcallback itself: the exception belongs to the caller
                    w.observe("sync-raise", type(e).__name__)
                if any(e[0] == "sync-raise" for e in w.obs):
                    em.sleep(1.0)
                elif P["dropped"]:
                    del ch
                    em.sleep(3.0)
                else:
                    try:
                        ch.waitclose(10)
                        w.observe("own-waitclose", "returned")
                    except BaseException as e:  # noqa: BLE001
                        w.observe("own-waitclose", type(e).__name__, isinstance(e, Exception))
                w.observe("init-seen", list(seen))
                em.sleep(1.0)
            S.join_users(20)
            w.exploring = False
            # the connection must have survived
            try:
                w.observe("hasreceiver", gw.hasreceiver())
                c2 = gw.remote_exec("channel.send(channel.receive() * 2)")
                c2.send(21)
                w.observe("fresh", c2.receive(timeout=10))
                if not P.get("reconf"):  # the status dict's keys are text: out of scope under coercion
                    rs = gw.remote_status()
                    w.observe("remote-alive", rs.numexecuting >= 0)
            except BaseException as e:  # noqa: BLE001
                w.observe("fresh-exc", type(e).__name__, str(e)[:200])
            w.observe("main-done")
            S.group.terminate(timeout=2.0)

        S.main(main)
        return S

    @staticmethod
    def oracle(w, S, P):
        obs = w.obs
        d = {}
        for e in obs:
            d.setdefault(e[0], []).append(e[1:])
        outcome = tuple(sorted((k, len(v)) for k, v in d.items()))
        tname, tmsg = EXC_TEXT[P["exc"]]

        def tb_ok(text, marker, template):
            """the traceback names the raising statement: its source line where the
            code comes from a real file, else its line number in the shipped source"""
            if marker in text:
                return True
            lines = template.split("\n")
            for ln, line in enumerate(lines, 1):
                if "MARK-RAISE" in line and f"line {ln}," in text:
                    return True
            return False

        def V(key, msg):
            return (f"c07:{key}", f"{msg}\n  params={P}\n  obs={obs}\n  blocked={w.blocked_at_end}\n  stderr={w.stderr.getvalue()[-1200:]}"), outcome

        if "main-done" not in d:
            return V("hang", "main thread never finished")
        # sibling undisturbed
        if P.get("sibling", True) and d.get("sibling") != [([(8, 1), (8, 2)],)]:
            return V("sibling-disturbed", f"sibling channel saw {d.get('sibling')}")
        # gateway survived
        if "fresh-exc" in d or d.get("hasreceiver") != [(True,)] or d.get("fresh") != [(42,)]:
            return V("gateway-down", f"after the failure: hasreceiver={d.get('hasreceiver')} fresh={d.get('fresh')} exc={d.get('fresh-exc')}")
        kind = P["kind"]
        if kind in ("body", "cb-worker"):
            got, errs = d["peer"][0]
            want = [(7, k) for k in range(P["i"])] if kind == "body" else []
            if got != want:
                return V("items-before-error", f"peer received {got} before the error, expected {want}")
            if kind == "cb-worker" and P["dropped"]:
                # the dropped channel announced "no more data" (CHANNEL_LAST_MESSAGE) before its
                # callback failed: the peer may legitimately see plain EOF; the error must then
                # have been warned about on the failing side instead of vanishing
                bad = [x for x in errs if x[0] not in ("RemoteError", "EOFError")]
                if bad:
                    return V("peer-exception", f"peer saw {errs}")
                if P["i"] < P["n"] and not any(x[0] == "RemoteError" for x in errs) and tmsg not in w.stderr.getvalue():
                    return V("error-vanished", f"callback error neither reached the peer nor was warned about; peer saw {errs}")
            elif kind == "body" or P["i"] < P["n"]:
                if not errs or errs[0][0] != "RemoteError":
                    return V("no-remote-error", f"peer saw {errs} instead of RemoteError")
                text = errs[0][1]
                if tname not in text or tmsg not in text or not tb_ok(text, "MARK-RAISE", BODY_RAISES if kind == "body" else BODY_CB_WORKER):
                    return V("remote-error-text", f"RemoteError text lacks type/message/traceback line: {text!r}")
                if [x[0] for x in errs[1:]] != ["EOFError"] * (len(errs) - 1) or len(errs) < 2:
                    return V("error-not-once", f"after the RemoteError the peer saw {errs[1:]}")
                if d["peer-waitclose"] != [("returned",)]:
                    return V("error-not-once", f"waitclose after the error was consumed: {d['peer-waitclose']}")
            if kind == "cb-worker":
                if P["i"] < P["n"] and not P["dropped"]:
                    r = d.get("own-waitclose")
                    if not r or r[0][0] == "returned" or not r[0][1] or r[0][0] not in ("RemoteError", "EOFError"):
                        return V("failing-side-not-closed-properly", f"failing side's own channel: waitclose -> {r}")
                if d.get("worker-seen") != [([(7, k) for k in range(min(P["i"], P["n"]))],)]:
                    return V("callback-items", f"worker callback saw {d.get('worker-seen')}")
                if d.get("ctl") != [("closed",)]:
                    return V("worker-body-failed", f"control channel: {d.get('ctl')}")
        elif "sync-raise" in d:
            pass  # out of the quantifier: the callback raised in the caller's own thread
        else:
            if d.get("init-seen") != [([(7, k) for k in range(min(P["i"], P["n"]))],)]:
                return V("callback-items", f"initiator callback saw {d.get('init-seen')}")
            if P["i"] < P["n"] and P["dropped"]:
                pw = d.get("peer-waitclose")
                if not pw or pw[0][0] not in ("RemoteError", "returned"):
                    return V("peer-exception", f"peer (worker) waitclose: {pw}")
                if pw[0][0] == "returned" and tmsg not in w.stderr.getvalue():
                    return V("error-vanished", "callback error neither reached the peer nor was warned about")
            elif P["i"] < P["n"]:
                pw = d.get("peer-waitclose")
                if not pw or pw[0][0] != "RemoteError":
                    return V("no-remote-error", f"peer (worker) waitclose: {pw}")
                text = pw[0][1]
                if tname not in text or tmsg not in text or "MARK-RAISE-INIT" not in text:
                    return V("remote-error-text", f"RemoteError text lacks type/message/traceback line: {text!r}")
                if not P["dropped"]:
                    r = d.get("own-waitclose")
                    if not r or r[0][0] == "returned" or not r[0][1] or r[0][0] not in ("RemoteError", "EOFError"):
                        return V("failing-side-not-closed-properly", f"failing side's own waitclose: {r}")
        return None, outcome


BODY_END_CB_WORKER = '''
em = channel.gateway.execmodel
W = em.world
c = channel.receive()
seen = []
def cb(item):
    if item is None:
        raise ValueError("boom-on-endmarker")
    seen.append(item)
c.setcallback(cb, endmarker=None)
channel.gateway._vp_keep = (c, seen)
channel.send("ready")
'''


class EndCbScn:
    """a callback that raises on its ENDMARKER (P: side "init" | "worker", n, how "close" | "body-end"):
    the failure is confined to that channel -- the gateway and the sibling channel live on"""

    @staticmethod
    def scenario(w, P):
        S = Session(w, P.get("transport", "popen"), P.get("backend", "thread"))

        def main():
            gw = S.open()
            em = S.proc.execmodel
            sib = gw.remote_exec(SIBLING)
            w.exploring = True

            def sibling():
                out = []
                try:
                    for x in (1, 2):
                        sib.send(x)
                        out.append(sib.receive(timeout=10))
                except BaseException as e:  # noqa: BLE001
                    out.append(type(e).__name__)
                w.observe("sibling", out)

            S.user(sibling, "sibling")
            seen = []
            if P["side"] == "init":

                def cb(item):
                    if item is None:
                        raise ValueError("boom-on-endmarker")
                    seen.append(item)

                ch = gw.remote_exec("for k in range(%d):\n    channel.send((7, k))" % P["n"])
                ch.setcallback(cb, endmarker=None)
                try:
                    ch.waitclose(10)
                    w.observe("own-waitclose", "returned")
                except BaseException as e:  # noqa: BLE001
                    w.observe("own-waitclose", type(e).__name__, "boom-on-endmarker" in str(e))
                w.observe("init-seen", list(seen))
            else:
                ctl = gw.remote_exec(BODY_END_CB_WORKER)
                c = gw.newchannel()
                ctl.send(c)
                ctl.receive(timeout=10)
                for k in range(P["n"]):
                    c.send((7, k))
                c.close()
                em.sleep(1.0)
            S.join_users(20)
            w.exploring = False
            try:
                w.observe("hasreceiver", gw.hasreceiver())
                c2 = gw.remote_exec("channel.send(channel.receive() * 2)")
                c2.send(21)
                w.observe("fresh", c2.receive(timeout=10))
                if P["side"] == "worker":
                    c3 = gw.remote_exec("channel.send(list(channel.gateway._vp_keep[1]))")
                    w.observe("worker-seen", c3.receive(timeout=10))
            except BaseException as e:  # noqa: BLE001
                w.observe("fresh-exc", type(e).__name__, str(e)[:200])
            w.observe("main-done")
            S.group.terminate(timeout=2.0)

        S.main(main)
        return S

    @staticmethod
    def oracle(w, S, P):
        obs = w.obs
        d = {}
        for e in obs:
            d.setdefault(e[0], []).append(e[1:])
        outcome = tuple(sorted((k, len(v)) for k, v in d.items()))

        def V(key, msg):
            return (f"c07:{key}", f"{msg}\n  params={P}\n  obs={obs}\n  blocked={w.blocked_at_end}\n  stderr={w.stderr.getvalue()[-1200:]}"), outcome

        if "main-done" not in d:
            return V("hang", "main thread never finished")
        if d.get("sibling") != [([(8, 1), (8, 2)],)]:
            return V("sibling-disturbed", f"sibling channel saw {d.get('sibling')}")
        if "fresh-exc" in d or d.get("hasreceiver") != [(True,)] or d.get("fresh") != [(42,)]:
            return V("gateway-down", f"after a callback failed on its endmarker: hasreceiver={d.get('hasreceiver')} fresh={d.get('fresh')} exc={d.get('fresh-exc')}")
        want = [(7, k) for k in range(P["n"])]
        seen = d.get("init-seen" if P["side"] == "init" else "worker-seen")
        if seen != [(want,)]:
            return V("items-before-failure", f"the callback saw {seen} before its endmarker, sent {want}")
        if P["side"] == "init" and d.get("own-waitclose") == [("returned",)]:
            # the failing side's own channel is closed with a proper error as well
            return V("own-channel-no-error", "waitclose() on the channel whose callback failed returned as if nothing had happened")
        return None, outcome


class CrashAfterErrScn:
    """the remote failure has arrived but was not consumed yet when the connection is lost abruptly: the
    channel still reports its items and its RemoteError (then EOF), not the connection's EOFError instead"""

    @staticmethod
    def scenario(w, P):
        from engine import vworld

        S = Session(w, P.get("transport", "popen"), "thread")

        def main():
            gw = S.open()
            em = S.proc.execmodel
            ch = gw.remote_exec(BODY_RAISES.format(spec={"i": P["i"]}, exc=EXC_SRC["ValueError"]))
            other = gw.remote_exec("channel.send(1)\nchannel.receive()")
            w.exploring = True
            for _ in range(200):
                if ch.isclosed():
                    break
                em.sleep(0.05)
            vworld.signal_proc(S.worker_proc(), 9)
            em.sleep(1.0)
            got, errs = [], []
            for _ in range(P["i"] + 3):
                try:
                    if P["how"] == "receive":
                        got.append(ch.receive(timeout=5))
                    else:
                        ch.waitclose(5)
                        errs.append(("returned", ""))
                except ch.RemoteError as e:
                    errs.append(("RemoteError", "boom-x" in str(e)))
                except EOFError:
                    errs.append(("EOFError", ""))
                except BaseException as e:  # noqa: BLE001
                    errs.append((type(e).__name__, str(e)[:60]))
                    break
            w.exploring = False
            w.observe("late", got, errs)
            w.observe("main-done")
            S.group.terminate(timeout=2.0)

        S.main(main)
        return S

    @staticmethod
    def oracle(w, S, P):
        obs = w.obs
        late = [e for e in obs if e[0] == "late"]
        if ("main-done",) not in obs or not late:
            return ("c07:hang", f"obs={obs} blocked={w.blocked_at_end}"), 0
        got, errs = late[0][1], late[0][2]
        if P["how"] == "receive" and got != [(7, k) for k in range(P["i"])]:
            return ("c07:items-before-error", f"P={P}: items {got}"), 0
        if not errs or errs[0] != ("RemoteError", True):
            return ("c07:error-replaced-by-eof", f"P={P}: the remote failure had arrived before the connection was lost, but the channel reported {errs} (items {got})"), 0
        if sum(1 for e in errs if e[0] == "RemoteError") != 1:
            return ("c07:error-not-once", f"P={P}: {errs}"), 0
        return None, 1


SCENARIOS = {"err": ErrScn, "endcb": EndCbScn, "crashafter": CrashAfterErrScn}


def stmt_pred(m, q, l):
    return m == "gateway_base" and (q.startswith("Channel.") or q.startswith("ChannelFactory.") or q.startswith("WorkerGateway.executetask") or q.startswith("BaseGateway._thread_receiver"))


def cases(tier):
    cs = []
    for kind in ("body", "cb-worker", "cb-init"):
        for n, i in ((2, 0), (2, 1), (2, 2)) if tier == "quick" else ((0, 0), (2, 0), (2, 1), (2, 2), (3, 3)):
            if kind == "body" and i > n:
                continue
            for exc in ("ValueError", "Custom", "ZeroDivisionError", "SystemExit", "CustomBase", "GeneratorExit", "Surrogate"):
                if exc in ("SystemExit", "CustomBase", "GeneratorExit") and kind != "body":
                    continue
                if tier == "quick" and exc == "GeneratorExit":
                    continue
                if tier == "quick" and exc in ("ZeroDivisionError",):
                    continue
                if tier == "quick" and exc != "ValueError" and (n, i) != (2, 1):
                    continue
                if tier != "quick" and exc != "ValueError" and (n, i) not in ((2, 1), (0, 0), (3, 3)):
                    continue
                if tier != "quick" and exc in ("ZeroDivisionError", "CustomBase", "GeneratorExit", "Surrogate") and (n, i) != (2, 1):
                    continue
                for dropped in (False, True):
                    if kind == "body" and dropped:
                        continue
                    cs.append({"kind": kind, "n": n, "i": i, "exc": exc, "dropped": dropped})
    return cs


def run(tier: str, only=None) -> int:
    rep = evidence.Report(PID, tier, "model_checking")
    rep.rule.append("failure kind (remote body / worker callback / initiator callback) x position in the item stream x exception type x failing channel alive/dropped, with a sibling channel active, x all interleavings within the bounds")
    rep.assumptions += ["virtual primitives / discrete time / statement granularity as in DESIGN 7"]
    stmt = harness.stmt_mask(stmt_pred)
    if tier == "quick":
        b_sync, b_stmt, cap = {"ps": 1, "free": 1}, {"ps": 0, "pl": 1, "free": 0}, 300000
    else:
        b_sync, b_stmt, cap = {"ps": 2, "free": 1}, {"ps": 0, "pl": 1, "free": 1}, 6000000
    for i, C in enumerate(cases(tier)):
        name = f"err/{i}:{C['kind']}:n{C['n']}i{C['i']}:{C['exc']}:{'dropped' if C['dropped'] else 'alive'}"
        if only and only not in name:
            continue
        P = dict(C, transport="popen", backend="thread")
        rep.sample({"sub": name, "params": P})
        harness.run_exploration(rep, PID, name + "/sync", ErrScn, P, b_sync, max_execs=cap)
        harness.run_exploration(rep, PID, name + "/stmt", ErrScn, P, b_stmt, stmt=stmt, max_execs=cap)
        if C["exc"] in ("ValueError", "SystemExit") and C["i"] == 1 and not C["dropped"] or (tier == "thorough" and C["exc"] == "ValueError" and (C["n"], C["i"]) in ((0, 0), (2, 2))):
            # other worker exec models and transports: the gateway must stay usable there too
            for tr, be in (("popen", "main_thread_only"), ("socket", "thread"), ("via", "thread")):
                if C["kind"] != "body" and be == "main_thread_only":
                    continue  # needs two concurrently running bodies
                # main_thread_only runs one body at a time: no concurrently running sibling there
                P2 = dict(C, transport=tr, backend=be, sibling=be != "main_thread_only")
                harness.run_exploration(rep, PID, f"{name}/{tr}:{be}", ErrScn, P2, {"ps": 1, "free": 0}, max_execs=cap)
        if C["exc"] in ("ValueError", "Custom") and C["i"] == 1 or (tier == "thorough" and C["exc"] == "ValueError" and C["i"] in (0, 2) and not C["dropped"]):
            # the error path must not depend on the gateway's string coercion settings (items are ints)
            for rc in ({"py3str_as_py2str": True}, {"py2str_as_py3str": False}, {"py3str_as_py2str": True, "py2str_as_py3str": False}):
                P3 = dict(C, transport="popen", backend="thread", reconf=rc)
                harness.run_exploration(rep, PID, f"{name}/reconf:{'+'.join(sorted(rc))}", ErrScn, P3, {"ps": 1, "free": 0}, max_execs=cap)
    for how in ("receive", "waitclose"):
        for i in (0, 2):
            for tr in ("popen", "socket", "via"):
                name = f"crashafter/{how}:i{i}:{tr}"
                if only and only not in name:
                    continue
                harness.run_exploration(rep, PID, name, CrashAfterErrScn, {"how": how, "i": i, "transport": tr}, {"ps": 1, "free": 0}, max_execs=cap)
    # a callback failing on its ENDMARKER, on either side
    for side in ("init", "worker"):
        for n in (0, 2):
            name = f"endcb/{side}:n{n}"
            if only and only not in name:
                continue
            P = {"side": side, "n": n, "transport": "popen", "backend": "thread"}
            harness.run_exploration(rep, PID, name + "/sync", EndCbScn, P, {"ps": 1, "free": 1} if tier == "quick" else {"ps": 2, "free": 1}, max_execs=cap)
            harness.run_exploration(rep, PID, name + "/stmt", EndCbScn, P, {"ps": 0, "pl": 1, "free": 0}, stmt=stmt, max_execs=cap)
            if n == 2:
                for tr, be in (("socket", "thread"), ("via", "thread")):
                    harness.run_exploration(rep, PID, f"{name}/{tr}:{be}", EndCbScn, dict(P, transport=tr, backend=be), {"ps": 1, "free": 0}, max_execs=cap)
    return rep.finish()


def replay(path: str) -> int:
    return harness.replay_file(path, SCENARIOS, stmt_for=lambda d: harness.stmt_mask(stmt_pred))
