"""C12 -- serialized byte format is stable and version-compatible."""

from __future__ import annotations

import itertools
import os
import subprocess
import tempfile

from engine import enumlib as E
from engine import evidence
from engine import explorer
from engine import refcodec as R
from engine.parallel import pmap

from .c01_roundtrip import srepr
from .c01_roundtrip import value_space
from .common import Session

PID = "C12"


def enc_check(chunk):
    import execnet

    bad = []
    for v in chunk:
        try:
            a = execnet.dumps(v)
        except Exception as e:  # noqa: BLE001
            if (type(v) is int and abs(v) >= 10**4300) or "4300" in str(e) or "Exceeds the limit" in str(e):
                continue
            bad.append(("dumps-exception", srepr(v, 100), type(e).__name__))
            continue
        b = R.encode(v)
        if a != b:
            bad.append(("bytes-differ", srepr(v, 100), f"impl={a[:60]!r} ref={b[:60]!r}"))
    return len(chunk), bad


def legacy_values():
    """values in the Python-2 dialect (PY2STRING / UNICODE / LONG / LONGLONG opcodes)"""
    leaves = [
        R.Py2Str(b""),
        R.Py2Str(b"abc"),
        R.Py2Str(b"\xe9\xff\x00"),
        R.Py2Unicode(""),
        R.Py2Unicode("h\xe9llo €"),
        R.Py2Long(0),
        R.Py2Long(-5),
        R.Py2Long(2**31 - 1),
        R.Py2Long(2**31),
        R.Py2Long(-(2**31) - 1),
        R.Py2Long(10**30),
        "py3 €",
        b"raw",
        7,
        None,
    ]
    vals = list(leaves)
    for a, b in itertools.product(range(len(leaves)), repeat=2):
        vals.append([leaves[a], leaves[b]])
        vals.append((leaves[a], leaves[b]))
        vals.append({"k": leaves[a], "j": leaves[b]})
    for a in range(len(leaves)):
        vals.append([({"x": [leaves[a]]},)])
    return vals


def dec_check(chunk):
    import execnet

    bad = []
    for data in chunk:
        for s1 in (False, True):
            for s2 in (False, True):
                try:
                    want = R.decode(data, s1, s2)
                except R.RefError as e:
                    bad.append(("reference-rejects-own-stream", data[:40], str(e)))
                    continue
                try:
                    got = execnet.loads(data, py2str_as_py3str=s1, py3str_as_py2str=s2)
                except Exception as e:  # noqa: BLE001
                    bad.append(("loads-exception", data[:60], f"{type(e).__name__}: {e} (py2str_as_py3str={s1}, py3str_as_py2str={s2})"))
                    continue
                if not E.same(got, want):
                    bad.append(("decode-mismatch", data[:60], f"impl={srepr(got, 80)} ref={srepr(want, 80)} (py2str_as_py3str={s1}, py3str_as_py2str={s2})"))
    return len(chunk) * 4, bad


class ReconfScn:
    """raw CHANNEL_DATA frames with a py2-dialect payload under each string-coercion setting"""

    @staticmethod
    def scenario(w, P):
        import struct

        S = Session(w, "popen", "thread")

        def main():
            gw = S.open()
            ch = gw.remote_exec("channel.gateway.execmodel.Event().wait()")
            ch2 = gw.remote_exec("channel.gateway.execmodel.Event().wait()")
            em = S.proc.execmodel
            em.sleep(0.5)
            pipe = S.worker_proc().pout
            body = []
            R.encode_body([R.Py2Str(b"p2\xe9"), "p3€", R.Py2Unicode("u")], body)
            payload = b"".join(body) + R.O["STOP"]
            out = []
            for scope in ("channel", "gateway"):
                for s1 in (True, False):
                    for s2 in (False, True):
                        if scope == "channel":
                            ch.reconfigure(py2str_as_py3str=s1, py3str_as_py2str=s2)
                            target = ch
                        else:
                            gw.reconfigure(py2str_as_py3str=s1, py3str_as_py2str=s2)
                            target = gw.remote_exec("channel.gateway.execmodel.Event().wait()")
                        # inject a frame as if the peer had sent it
                        pipe.buf += struct.pack("!bii", 4, target.id, len(payload)) + payload
                        got = target.receive(timeout=5)
                        out.append((scope, s1, s2, got))
            # a channel configured earlier keeps its own setting after a gateway-wide change
            pipe.buf += struct.pack("!bii", 4, ch.id, len(payload)) + payload
            out.append(("channel-after-gateway", False, True, ch.receive(timeout=5)))
            # defaults of a fresh gateway-level channel created before any reconfigure: covered by ch2
            S.ctx["out"] = out
            S.ctx["done"] = True
            S.group.terminate(timeout=1.0)

        S.main(main)
        return S

    @staticmethod
    def oracle(w, S, P):
        if not S.ctx.get("done"):
            return ("c12:reconfigure-hang", f"blocked={w.blocked_at_end} stderr={w.stderr.getvalue()[-500:]}"), 0
        for scope, s1, s2, got in S.ctx["out"]:
            want = [("p2\xe9" if s1 else b"p2\xe9"), (b"p3\xe2\x82\xac" if s2 else "p3€"), "u"]
            if not E.same(got, want):
                return ("c12:reconfigure", f"{scope} reconfigure(py2str_as_py3str={s1}, py3str_as_py2str={s2}): received {got!r}, expected {want!r}"), 0
        return None, len(S.ctx["out"])


SCENARIOS = {"reconf": ReconfScn}

CROSS = r'''
import sys, pickle
sys.path.insert(0, sys.argv[1])
import execnet
mode, path = sys.argv[2], sys.argv[3]
if mode == "dump":
    vals = pickle.load(open(path, "rb"))
    pickle.dump([execnet.dumps(v) for v in vals], open(path + ".out", "wb"))
else:
    blobs = pickle.load(open(path, "rb"))
    pickle.dump([execnet.loads(b) for b in blobs], open(path + ".out", "wb"))
'''


class ConcApiScn:
    """two threads of one process using the module-level API (dumps / loads / dump / load) at the same
    time: every result is byte-exact / value-exact whatever the interleaving inside the serializer"""

    VALS = [[1, "a" * 3, (2.5, None)], {"k": [b"zz", True], "j": -7}]

    @staticmethod
    def scenario(w, P):
        import io

        import execnet

        S = Session(w, "popen", "thread")

        def main():
            w.exploring = True

            def user(i):
                v = ConcApiScn.VALS[i]
                try:
                    if P["api"] == "dumps":
                        a = execnet.dumps(v)
                        r = execnet.loads(a)
                    else:
                        f = io.BytesIO()
                        execnet.dump(f, v)
                        a = f.getvalue()
                        f.seek(0)
                        r = execnet.load(f)
                    w.observe("res", i, a, E.same(r, v))
                except BaseException as e:  # noqa: BLE001
                    w.observe("exc", i, type(e).__name__, str(e)[:100])

            for i in range(2):
                S.user(user, f"api{i}", (i,))
            S.join_users()
            w.exploring = False
            w.observe("joined")

        S.main(main)
        return S

    @staticmethod
    def oracle(w, S, P):
        obs = w.obs
        if ("joined",) not in obs:
            return ("c12:concurrent-api-hang", f"obs={obs} blocked={w.blocked_at_end}"), 0
        for e in obs:
            if e[0] == "exc":
                return ("c12:concurrent-api-exception", f"{e}"), 0
            if e[0] == "res" and (e[2] != R.encode(ConcApiScn.VALS[e[1]]) or not e[3]):
                return ("c12:concurrent-api-bytes", f"thread {e[1]}: dumps() while another thread was serialising produced {e[2]!r}, format 2 says {R.encode(ConcApiScn.VALS[e[1]])!r} (loads gave the value back: {e[3]})"), 0
        return None, 1


SCENARIOS = {"concapi": ConcApiScn}


def api_histories(rep, depth):
    """every sequence of up to `depth` module-level API calls (succeeding and failing ones): each call's
    result must be what the same call gives on a fresh interpreter state, i.e. the reference codec's"""
    import io

    import execnet

    class Unsupported:
        pass

    good = [42, [1, "x"], {"k": (b"b", None)}]
    bad = [[1, 2, Unsupported()], {"k": (1, Unsupported())}, (Unsupported(),)]
    good_streams = [R.encode(v) for v in good]
    bad_streams = [R.encode([1, "x"])[:-3], b"\x02" + b"~", b"\x03" + R.encode(1)[1:]]
    ops = []
    for i, v in enumerate(good):
        ops.append((f"dumps(good{i})", lambda v=v: execnet.dumps(v), R.encode(v)))
    for i, v in enumerate(bad):
        ops.append((f"dumps(bad{i})", lambda v=v: execnet.dumps(v), execnet.DumpError))
    for i, (s, v) in enumerate(zip(good_streams, good)):
        ops.append((f"loads(good{i})", lambda s=s: execnet.loads(s), v))
    for i, s in enumerate(bad_streams):
        ops.append((f"loads(bad{i})", lambda s=s: execnet.loads(s), EOFError if i == 0 else execnet.DataFormatError))

    def dump_to_stream(v):
        f = io.BytesIO()
        execnet.dump(f, v)
        return f.getvalue()

    ops.append(("dump(f, good1)", lambda: dump_to_stream(good[1]), R.encode(good[1])))
    ops.append(("dump(f, bad0)", lambda: dump_to_stream(bad[0]), execnet.DumpError))
    ops.append(("load(f good2)", lambda: execnet.load(io.BytesIO(good_streams[2])), good[2]))
    n = 0
    for d in range(1, depth + 1):
        for seq in itertools.product(range(len(ops)), repeat=d):
            n += 1
            for k in seq:
                name, fn, want = ops[k]
                try:
                    got = fn()
                except Exception as e:  # noqa: BLE001
                    got = e
                if isinstance(want, type) and issubclass(want, Exception):
                    ok = isinstance(got, want)
                elif isinstance(want, bytes):
                    ok = type(got) is bytes and got == want
                else:
                    ok = not isinstance(got, Exception) and E.same(got, want)
                if not ok:
                    hist = " ; ".join(ops[j][0] for j in seq)
                    rep.violation("c12:api-history", f"in the call history [{hist}] the call {name} gave {got!r:.120}, a fresh state gives {want!r:.120}", {"check": PID, "sub": "history", "history": hist})
                    return n
    return n


def cross_version(rep, vals):
    """the other interpreter present (3.11) dumps what 3.12 loads and vice versa"""
    import pickle

    import execnet

    py = "/usr/bin/python3.11"
    if not os.path.exists(py):
        rep.assumptions.append("python3.11 not present: cross-version clause not exercised")
        return
    vals = [v for v in vals if not (type(v) is int and abs(v) >= 10**4299)][:400]
    with tempfile.TemporaryDirectory(prefix="c12-") as d:
        script = os.path.join(d, "cross.py")
        open(script, "w").write(CROSS)
        p = os.path.join(d, "vals.pkl")
        pickle.dump(vals, open(p, "wb"))
        r = subprocess.run([py, "-S", script, "/repo/src", "dump", p], capture_output=True, text=True, timeout=120)
        if r.returncode != 0:
            rep.assumptions.append("python3.11 cannot import execnet from /repo/src: cross-version clause not exercised: " + r.stderr.strip()[-200:])
            return
        blobs = pickle.load(open(p + ".out", "rb"))
        n = 0
        for v, b in zip(vals, blobs):
            n += 1
            if b != execnet.dumps(v):
                rep.violation("c12:cross-version-bytes", f"python3.11 dumps({srepr(v, 80)}) differs from python3.12", {"check": PID, "sub": "cross"})
                break
        p2 = os.path.join(d, "blobs.pkl")
        pickle.dump([execnet.dumps(v) for v in vals], open(p2, "wb"))
        r = subprocess.run([py, "-S", script, "/repo/src", "load", p2], capture_output=True, text=True, timeout=120)
        if r.returncode != 0:
            rep.violation("c12:cross-version-load", f"python3.11 failed to load 3.12 dumps: {r.stderr[-300:]}", {"check": PID, "sub": "cross"})
            return
        back = pickle.load(open(p2 + ".out", "rb"))
        for v, x in zip(vals, back):
            n += 1
            if not E.same(v, x):
                rep.violation("c12:cross-version-value", f"3.12 dump of {srepr(v, 80)} loads as {srepr(x, 80)} on python3.11", {"check": PID, "sub": "cross"})
                break
        rep.add_enumeration("cross-version-3.11", n, n // 2, {"interpreter": py})


def run(tier: str, only=None) -> int:
    import execnet
    from execnet import gateway_base as gb

    rep = evidence.Report(PID, tier, "exploration")
    rep.rule.append("every value of the C01 value space: dumps() byte-for-byte against the independent reference encoder; every reference-encoded stream of the legacy (Python-2 dialect) value space under all four coercion settings against the reference decoder; all 256 version bytes; opcode table letter by letter; reconfigure at channel and gateway scope in a virtual session")
    vals = [v for v in value_space(tier)]
    # ints beyond the interpreter's int<->str digit limit: dumps() may refuse them (known finding of C01),
    # but whatever it does emit must be format 2 (decimal text)
    huge = [x for h in E.HUGE_INTS for x in (h, [h], {"k": (h,)})]
    res = pmap(enc_check, [vals[i::64] for i in range(64)] + [huge])
    bads = [b for _, bs in res for b in bs]
    rep.add_enumeration("encode-bytes", sum(n for n, _ in res), sum(1 for v in vals if isinstance(v, (list, tuple, dict, set, frozenset))))
    for kind, vr, detail in bads[:3]:
        rep.violation("c12:" + kind, f"{vr}: {detail}", {"check": PID, "sub": "encode", "value": vr, "detail": detail})
    rep.sample({"value": srepr(vals[len(E.LEAVES) + 77], 80), "bytes": repr(R.encode(vals[len(E.LEAVES) + 77])[:60])})
    # decoding incl. legacy opcodes
    lv = legacy_values()
    streams = [R.encode(v) for v in lv] + [R.encode(v) for v in vals[:: max(1, len(vals) // 1500)] if not (type(v) is int and abs(v) >= 10**4299)]
    res = pmap(dec_check, [streams[i::32] for i in range(32)])
    bads = [b for _, bs in res for b in bs]
    rep.add_enumeration("decode-streams-x4-settings", sum(n for n, _ in res), len(streams), {"legacy_dialect_streams": len(lv)})
    seen = set()
    for kind, data, detail in bads:
        if kind in seen:
            continue
        seen.add(kind)
        rep.violation("c12:" + kind, f"{data!r}: {detail}", {"check": PID, "sub": "decode", "data": repr(data), "detail": detail})
    # several values written one after another into one stream: load() consumes exactly one value
    import io as _io

    class ExactStream:
        """refuses to be read beyond a limit that is moved forward value by value"""

        def __init__(self, data):
            self.data, self.pos, self.limit, self.over = data, 0, 0, False

        def read(self, n=-1):
            if n is None or n < 0:
                n = len(self.data) - self.pos
                self.over = True
            if self.pos + n > self.limit:
                self.over = True
            out = self.data[self.pos : self.pos + n]
            self.pos += len(out)
            return out

    seqs = [vals[i : i + 4] for i in range(0, min(len(vals), 4000), 397)] + [[None, [], {}, b"", ""], [1, 2**40, -(2**31), 1.5]]
    nseq = 0
    for seq in seqs:
        seq = [v for v in seq if not (type(v) is int and abs(v) >= 10**4299)]
        f = _io.BytesIO()
        ends = []
        for v in seq:
            execnet.dump(f, v)
            ends.append(f.tell())
        data = f.getvalue()
        f.seek(0)
        es = ExactStream(data)
        for v, end in zip(seq, ends):
            nseq += 1
            try:
                a = execnet.load(f)
                es.limit = end
                b = execnet.load(es)
            except Exception as e:  # noqa: BLE001
                rep.violation("c12:stream-sequence", f"values dumped one after another into one stream: load() of value {srepr(v, 60)} raised {type(e).__name__}: {e}", {"check": PID, "sub": "stream"})
                break
            if not E.same(a, v) or not E.same(b, v) or f.tell() != end or es.pos != end or es.over:
                rep.violation("c12:stream-sequence", f"load() must consume exactly one value (up to its STOP byte): after {srepr(v, 60)} the stream is at {f.tell()} / {es.pos}, the value ends at {end}; read beyond it: {es.over}", {"check": PID, "sub": "stream"})
                break
    rep.add_enumeration("stream-sequences", nseq, nseq)
    # call histories: state left behind by an earlier (failing or succeeding) call must not leak into the next
    nh = api_histories(rep, 2 if tier == "quick" else 3)
    rep.add_enumeration("api-call-histories", nh, nh)
    # two threads inside dumps()/loads()/dump()/load() at the same time, preempted between any two statements
    from engine import harness

    ser = harness.stmt_mask(lambda m, q, l: m == "gateway_base" and (q.startswith("_Serializer.") or q.startswith("Unserializer.") or q in ("dumps", "loads", "dump", "load")))
    for api in ("dumps", "dump"):
        harness.run_exploration(rep, PID, f"concapi/{api}", ConcApiScn, {"api": api}, {"ps": 0, "pl": 1, "free": 0} if tier == "quick" else {"ps": 0, "pl": 2, "free": 0}, stmt=ser, max_execs=1500000)
    # version byte
    body = R.encode([1, "x"])[1:]
    n = 0
    for vb in range(256):
        data = bytes([vb]) + body
        n += 1
        try:
            execnet.loads(data)
            ok = vb == 2
            if not ok:
                rep.violation("c12:foreign-version-accepted", f"version byte {vb} accepted", {"check": PID, "sub": "version"})
        except execnet.DataFormatError:
            if vb == 2:
                rep.violation("c12:version-2-rejected", "version byte 2 rejected", {"check": PID, "sub": "version"})
        except Exception as e:  # noqa: BLE001
            rep.violation("c12:version-wrong-exception", f"version byte {vb}: {type(e).__name__}", {"check": PID, "sub": "version"})
    rep.add_enumeration("version-bytes", n, 255)
    # opcode table
    impl = {k: v for k, v in vars(gb.opcode).items() if not k.startswith("_") and isinstance(v, bytes)}
    if impl != R.OPCODES:
        diff = {k: (impl.get(k), R.OPCODES.get(k)) for k in set(impl) | set(R.OPCODES) if impl.get(k) != R.OPCODES.get(k)}
        rep.violation("c12:opcode-table", f"opcode table differs from format version 2: {diff}", {"check": PID, "sub": "opcodes"})
    if gb.DUMPFORMAT_VERSION != b"\x02":
        rep.violation("c12:opcode-table", "DUMPFORMAT_VERSION changed", {"check": PID, "sub": "opcodes"})
    rep.add_enumeration("opcode-table", len(R.OPCODES), len(R.OPCODES))
    # reconfigure plumbing
    r = explorer.run_once(ReconfScn.scenario, ReconfScn.oracle, {}, [])
    rep.add_enumeration("reconfigure-virtual-session", 9, 9)
    if r.violation is not None:
        rep.violation(r.violation[0], r.violation[1], {"check": PID, "sub": "reconf"})
    cross_version(rep, vals)
    rep.assumptions += ["interpreters 3.10 and 3.13 are not installed in this sandbox: only 3.11 and 3.12 are exercised", "sets are encoded in their iteration order; the reference encoder iterates the same set object"]
    return rep.finish()


def replay(path: str) -> int:
    import json

    from engine import harness

    d = json.load(open(path))
    if "choices" in d:
        return harness.replay_file(path, SCENARIOS, stmt_for=lambda d: harness.stmt_mask(lambda m, q, l: m == "gateway_base" and (q.startswith("_Serializer.") or q.startswith("Unserializer.") or q in ("dumps", "loads", "dump", "load"))))
    print(d)
    return 1
