"""generated channel programs (used by C02, C08, C16).

A program P:
  transport, backend
  channels: list of dicts
     kind:   "exec" (its own remote_exec) | "new" (gw.newchannel(), sent over channel 0)
     up/down: number of items initiator->worker / worker->initiator
     up_senders/down_senders: 1 or 2 threads sharing the channel
     recv:   "receive" | "iter" | "callback"   (initiator side, for down items)
     receivers: 1 or 2 (only recv == "receive")
     wrecv:  "receive" | "callback"            (worker side, for up items)
  size: payload length of each item

Every item is a tuple (channel index, direction, sender, seq, pad).
"""

from __future__ import annotations

from .common import Session

WORKER_SRC = '''
em = channel.gateway.execmodel
W = em.world
spec = {spec!r}
c = spec["c"]
pad = b"x" * spec["size"]
chan = channel
if spec["kind"] == "new":
    chan = channel.receive()          # the transferred channel
    W.observe("transferred", c, type(chan).__name__, chan.id)
done = []
def send_down(sender, seqs):
    try:
        for seq in seqs:
            chan.send((c, "down", sender, seq, pad))
    except BaseException as e:
        W.observe("wsend-exc", c, sender, type(e).__name__, str(e)[:80])
    finally:
        ev = done[sender]
        ev.set()
n = spec["down"]
k = spec["down_senders"]
shares = [list(range(s, n, k)) for s in range(k)]
for s in range(k):
    done.append(em.Event())
for s in range(1, k):
    em.start(send_down, (s, shares[s]))
got = []
if spec["wrecv"] == "callback" and spec["up"]:
    fin = em.Event()
    def cb(item):
        got.append(item)
        if len(got) >= spec["up"]:
            fin.set()
    chan.setcallback(cb)
    send_down(0, shares[0])
    fin.wait()
else:
    send_down(0, shares[0])
    for i in range(spec["up"]):
        got.append(chan.receive())
for ev in done:
    ev.wait()
W.observe("wgot", c, [tuple(x[:4]) for x in got], [len(x[4]) for x in got])
if spec["kind"] == "new":
    chan.close()
'''


def default_channel(**kw):
    d = {"kind": "exec", "up": 0, "down": 0, "up_senders": 1, "down_senders": 1, "recv": "receive", "receivers": 1, "wrecv": "receive"}
    d.update(kw)
    return d


class ChanProg:
    """scenario + C02 oracle"""

    @staticmethod
    def scenario(w, P):
        S = Session(w, P.get("transport", "popen"), P.get("backend", "thread"))
        w.short_reads = bool(P.get("short_reads"))
        if P.get("sendall_splits"):
            w.opts["sendall_splits"] = True
        size = P.get("size", 0)
        pad = b"x" * size

        def main():
            gw = S.open()
            em = S.proc.execmodel
            chans = []
            for ci, C in enumerate(P["channels"]):
                spec = dict(C, c=ci, size=size)
                ch = gw.remote_exec(WORKER_SRC.format(spec=spec))
                if C["kind"] == "new":
                    data = gw.newchannel()
                    ch.send(data)
                    chans.append((ch, data))
                else:
                    chans.append((ch, ch))
            if P.get("gc"):
                # a cyclic-garbage channel of this gateway: the collector may finalize it (and send its
                # close frame) at any statement of the sending path of this process
                from engine import instrument

                g = gw.newchannel()
                cyc = [g]
                cyc.append(cyc)
                del g, cyc
                w.gc_mask = instrument.select(lambda m, q, l: (m == "gateway_base" and q in ("BaseGateway._send", "Message.to_io", "Channel.send", "Popen2IO.write", "SocketIO.write", "Message.__init__")) or (m == "gateway_io" and q.startswith("ProxyIO.write")))
                w.gc_proc = S.proc
            w.exploring = True
            for ci, C in enumerate(P["channels"]):
                ctl, data = chans[ci]
                # senders
                k = C["up_senders"]
                for s in range(k):
                    seqs = list(range(s, C["up"], k))
                    if seqs:

                        def send_up(data=data, ci=ci, s=s, seqs=seqs):
                            try:
                                for seq in seqs:
                                    data.send((ci, "up", s, seq, pad))
                            except BaseException as e:  # noqa: BLE001
                                w.observe("send-exc", ci, s, type(e).__name__, str(e)[:80])

                        S.user(send_up, f"up{ci}.{s}")
                # receivers
                if C["recv"] == "callback":
                    fin = em.Event()
                    END = ("END", ci)

                    def cb(item, ci=ci, fin=fin, END=END):
                        if item == END:
                            w.observe("cb-end", ci)
                            fin.set()
                        else:
                            w.observe("got", ci, "cb", tuple(item[:4]), len(item[4]))

                    def reg(data=data, cb=cb, END=END, fin=fin, ci=ci):
                        data.setcallback(cb, endmarker=END)
                        fin.wait()
                        w.observe("rdone", ci, "cb")

                    S.user(reg, f"cb{ci}")
                elif C["recv"] == "iter":

                    def it(data=data, ci=ci):
                        try:
                            for item in data:
                                w.observe("got", ci, "it", tuple(item[:4]), len(item[4]))
                            w.observe("rdone", ci, "it")
                        except BaseException as e:  # noqa: BLE001
                            w.observe("recv-exc", ci, "it", type(e).__name__, str(e)[:80])

                    S.user(it, f"it{ci}")
                else:
                    for r in range(C["receivers"]):

                        def rc(data=data, ci=ci, r=r):
                            try:
                                while True:
                                    item = data.receive()
                                    w.observe("got", ci, f"r{r}", tuple(item[:4]), len(item[4]))
                            except EOFError:
                                w.observe("rdone", ci, f"r{r}")
                            except BaseException as e:  # noqa: BLE001
                                w.observe("recv-exc", ci, f"r{r}", type(e).__name__, str(e)[:80])

                        S.user(rc, f"rc{ci}.{r}")
                if ctl is not data:

                    def wc(ctl=ctl, ci=ci):
                        try:
                            ctl.waitclose()
                            w.observe("ctl-closed", ci)
                        except BaseException as e:  # noqa: BLE001
                            w.observe("ctl-exc", ci, type(e).__name__, str(e)[:80])

                    S.user(wc, f"wc{ci}")
            S.join_users()
            w.exploring = False
            w.observe("joined")
            del chans, ctl, data
            S.group.terminate(timeout=5.0)
            w.observe("terminated")

        S.main(main)
        return S

    @staticmethod
    def check_delivery(w, P):
        """returns (key, message) or None -- the C02 oracle"""
        obs = w.obs
        size = P.get("size", 0)
        if ("joined",) not in obs:
            return ("hang", f"user threads never finished: blocked={w.blocked_at_end} obs={obs[-8:]}")
        for e in obs:
            if e[0] in ("send-exc", "wsend-exc", "recv-exc", "ctl-exc"):
                return ("unexpected-exception", f"{e}")
        for ci, C in enumerate(P["channels"]):
            # down direction
            got = [e for e in obs if e[0] == "got" and e[1] == ci]
            for e in got:
                tag = e[3]
                if tag[0] != ci or tag[1] != "down":
                    return ("leak", f"item {tag} observed on channel {ci} (initiator side)")
                if e[4] != size:
                    return ("corrupt", f"payload length {e[4]} != {size} for {tag}")
            tags = [e[3] for e in got]
            want = [(ci, "down", s, q) for s in range(C["down_senders"]) for q in range(s, C["down"], C["down_senders"])]
            if sorted(tags) != sorted(want):
                return ("loss-or-dup", f"channel {ci} down: received {tags}, sent {want}")
            for rname in {e[2] for e in got}:
                for s in range(C["down_senders"]):
                    seqs = [e[3][3] for e in got if e[2] == rname and e[3][2] == s]
                    if seqs != sorted(seqs):
                        return ("order", f"channel {ci} down receiver {rname}: sender {s} items out of order {seqs}")
            if C["recv"] != "receive" or C["receivers"] == 1:
                for s in range(C["down_senders"]):
                    seqs = [t[3] for t in tags if t[2] == s]
                    if seqs != sorted(seqs):
                        return ("order", f"channel {ci} down: sender {s} items out of order {seqs}")
            # up direction
            wg = [e for e in obs if e[0] == "wgot" and e[1] == ci]
            if len(wg) != 1:
                return ("worker-body", f"worker body of channel {ci} reported {len(wg)} times")
            utags, ulens = wg[0][2], wg[0][3]
            want = [(ci, "up", s, q) for s in range(C["up_senders"]) for q in range(s, C["up"], C["up_senders"])]
            if sorted(utags) != sorted(want):
                return ("loss-or-dup", f"channel {ci} up: worker received {utags}, sent {want}")
            if any(l != size for l in ulens):
                return ("corrupt", f"channel {ci} up payload lengths {ulens}")
            for s in range(C["up_senders"]):
                seqs = [t[3] for t in utags if t[2] == s]
                if seqs != sorted(seqs):
                    return ("order", f"channel {ci} up: sender {s} items out of order {seqs}")
            if C["kind"] == "new":
                tr = [e for e in obs if e[0] == "transferred" and e[1] == ci]
                if not tr or tr[0][2] != "Channel":
                    return ("transfer", f"transferred channel arrived as {tr}")
            if C["recv"] == "callback" and ("cb-end", ci) not in obs:
                return ("endmarker", f"channel {ci}: callback endmarker never delivered")
            if C["recv"] == "callback" and [e for e in obs if e[0] in ("got", "cb-end") and e[1] == ci][-1][0] != "cb-end":
                return ("endmarker", f"channel {ci}: endmarker not last")
        if ("terminated",) not in obs:
            return ("hang", f"terminate did not return: blocked={w.blocked_at_end}")
        return None

    @staticmethod
    def oracle(w, S, P):
        v = ChanProg.check_delivery(w, P)
        order = tuple((e[1], e[2], e[3][2], e[3][3]) for e in w.obs if e[0] == "got")
        if v is not None:
            return ("c02:" + v[0], v[1] + f"\n  stderr: {w.stderr.getvalue()[-1500:]}"), order
        return None, order
