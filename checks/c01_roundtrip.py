"""C01 -- serializer round-trip is total and type-exact on builtin values."""

from __future__ import annotations

import io
import itertools

from engine import enumlib as E
from engine import evidence
from engine import explorer
from engine import harness
from engine.parallel import pmap

from .common import Session

PID = "C01"


def value_space(tier):
    vals = list(E.LEAVES)
    hashable = [v for v in E.LEAVES if E.is_hashable(v)]
    d2 = list(E.containers_of(E.LEAVES, hashable, 2))
    vals += d2
    # depth 3 over a representative leaf set
    d2rep = list(E.containers_of(E.REP_LEAVES, E.HASHABLE_REP, 2))
    step = 9 if tier == "quick" else 2
    members = E.REP_LEAVES + d2rep[::step]
    hmembers = E.HASHABLE_REP + [v for v in d2rep[::step] if E.is_hashable(v)]
    d3 = list(E.containers_of(members, hmembers, 2))
    vals += d3
    if tier == "thorough":
        m4 = E.REP_LEAVES[:6] + d3[:: max(1, len(d3) // 60)]
        h4 = E.HASHABLE_REP[:5] + [v for v in m4 if E.is_hashable(v) and v not in E.HASHABLE_REP[:5]][:20]
        vals += list(E.containers_of(m4, h4, 2))
        vals += list(E.containers_of(E.REP_LEAVES[:8], E.HASHABLE_REP[:6], 3))
    # deep nesting, dict key order permutations, tuple / frozenset keys
    deep = 1
    for _ in range(60):
        deep = [deep, (deep,), {"k": deep}][_ % 3]
    vals.append(deep)
    for perm in itertools.permutations(["a", "b", "c"]):
        vals.append({k: i for i, k in enumerate(perm)})
    vals += [{(1, 2): "t", frozenset([1]): "f", (): None}, {True: 1}, {1: True}, {0: False, "0": 0}, [True, 1, 1.0, 1 + 0j], (False, 0, 0.0, -0.0)]
    vals += ["".join(chr(c) for c in range(0x20, 0x7F)), "\U0010ffffࠀ߿\x7f\x80", "x" * 70000, b"y" * 70000, list(range(300))]
    return vals


def srepr(v, n=200):
    try:
        return repr(v)[:n]
    except ValueError:
        return f"<int of {v.bit_length()} bits>" if isinstance(v, int) else "<unprintable>"


def check_values(chunk):
    import execnet

    bad = []
    n = 0
    for v in chunk:
        n += 1
        try:
            b = execnet.dumps(v)
            r = execnet.loads(b)
            if not E.same(r, v):
                bad.append(("mismatch", srepr(v), srepr(r)))
                continue
            f = io.BytesIO()
            execnet.dump(f, v)
            if f.getvalue() != b:
                bad.append(("dump-differs-from-dumps", repr(v)[:200], ""))
                continue
            f.seek(0)
            r2 = execnet.load(f)
            if not E.same(r2, v):
                bad.append(("mismatch-stream", srepr(v), srepr(r2)))
        except BaseException as e:  # noqa: BLE001
            bad.append(("exception", srepr(v, 120), f"{type(e).__name__}: {str(e)[:120]}"))
    return n, bad


def key_for(kind, vrepr, detail):
    if kind == "exception":
        if "struct.error" in detail or "'i' format requires" in detail:
            return "c01:int-below-minus-2**31"
        if "4300" in detail or "Exceeds the limit" in detail:
            return "c01:int-over-4300-digits"
    return f"c01:{kind}"


class ChanScn:
    """echo a list of values through a channel; invalid values must not touch the wire"""

    VALUES: list = []
    INVALID: list = []

    @staticmethod
    def scenario(w, P):
        S = Session(w, P.get("transport", "popen"), "thread")

        def main():
            import execnet

            gw = S.open()
            ch = gw.remote_exec("for x in channel:\n    channel.send(x)")
            pipe = S.worker_proc().pin
            res = []
            for i, v in enumerate(ChanScn.VALUES):
                try:
                    ch.send(v)
                    r = ch.receive(timeout=30)
                    if not E.same(r, v):
                        res.append(("mismatch", i, repr(v)[:150], repr(r)[:150]))
                except BaseException as e:  # noqa: BLE001
                    res.append(("exception", i, repr(v)[:150], f"{type(e).__name__}: {str(e)[:100]}"))
                    break
            # pipelined: a large value with smaller ones right behind it (back-to-back frames in both
            # directions; on stream transports the reader must stop exactly at each frame's end)
            for big in (65536, 65537, 200123):
                batch = [b"\x07" * big, 42, "after", (2**31, -0.0), b"\x08" * (big // 2 + 1), None]
                try:
                    for v in batch:
                        ch.send(v)
                    for i, v in enumerate(batch):
                        r = ch.receive(timeout=30)
                        if not E.same(r, v):
                            res.append(("pipelined-mismatch", big, i, repr(r)[:80]))
                except BaseException as e:  # noqa: BLE001
                    res.append(("pipelined-exception", big, f"{type(e).__name__}: {str(e)[:100]}"))
                    break
            for name, v in ChanScn.INVALID:
                before = pipe.total
                try:
                    ch.send(v)
                    res.append(("invalid-accepted", name, repr(v)[:100], ""))
                except execnet.DumpError:
                    pass
                except BaseException as e:  # noqa: BLE001
                    res.append(("invalid-wrong-exception", name, repr(v)[:100], type(e).__name__))
                if pipe.total != before:
                    res.append(("invalid-reached-wire", name, repr(v)[:100], pipe.total - before))
                try:
                    ch.send(("still-usable", name))
                    r = ch.receive(timeout=30)
                    if r != ("still-usable", name):
                        res.append(("channel-unusable", name, repr(r)[:100], ""))
                except BaseException as e:  # noqa: BLE001
                    res.append(("channel-unusable", name, type(e).__name__, str(e)[:100]))
                    break
            S.ctx["res"] = res
            S.ctx["done"] = True
            S.group.terminate(timeout=2.0)

        S.main(main)
        return S

    @staticmethod
    def oracle(w, S, P):
        res = S.ctx.get("res", [])
        if not S.ctx.get("done"):
            return ("c01:channel-hang", f"blocked={w.blocked_at_end} res={res}"), 0
        if res:
            return ("c01:channel-" + res[0][0], f"{res[:5]}"), len(res)
        return None, 0


class ConcSendScn:
    """two threads serialising / sending different values at the same time (two channels of one
    gateway, or two gateways of one process): each echo must return its own value"""

    @staticmethod
    def scenario(w, P):
        S = Session(w, "popen", "thread")

        def main():
            from execnet.multi import Group

            S.group = g = Group(execmodel=S.proc.execmodel)
            gws = [g.makegateway("popen//id=a")]
            if P["gateways"] == 2:
                gws.append(g.makegateway("popen//id=b"))
            chans = [gws[i % len(gws)].remote_exec("for x in channel:\n    channel.send(x)") for i in range(2)]
            vals = [[1, "a" * 3, (2.5, None)], {"k": [b"zz", True], "j": -7}]
            w.exploring = True

            def user(i):
                try:
                    for rnd in range(P["rounds"]):
                        chans[i].send(vals[i])
                        r = chans[i].receive(timeout=30)
                        if not E.same(r, vals[i]):
                            w.observe("mismatch", i, repr(r)[:120])
                except BaseException as e:  # noqa: BLE001
                    w.observe("exc", i, type(e).__name__, str(e)[:100])

            for i in range(2):
                S.user(user, f"sender{i}", (i,))
            S.join_users()
            w.exploring = False
            w.observe("joined")
            g.terminate(timeout=2.0)

        S.main(main)
        return S

    @staticmethod
    def oracle(w, S, P):
        obs = w.obs
        if ("joined",) not in obs:
            return ("c01:concurrent-send-hang", f"obs={obs} blocked={w.blocked_at_end} stderr={w.stderr.getvalue()[-400:]}"), 0
        for e in obs:
            if e[0] == "mismatch":
                return ("c01:concurrent-send-mismatch", f"a value sent while another thread was serialising came back as {e[2]} (sender {e[1]})"), 0
            if e[0] == "exc":
                return ("c01:concurrent-send-exception", f"{e} stderr={w.stderr.getvalue()[-400:]}"), 0
        return None, 1


SCENARIOS = {"chan": ChanScn, "conc": ConcSendScn}


def run(tier: str, only=None) -> int:
    import execnet

    rep = evidence.Report(PID, tier, "exploration")
    vals = value_space(tier)
    rep.rule.append("all values of the supported grammar up to depth 2 over the full boundary leaf set, depth 3 over a representative leaf set (+ deep nesting, key-order permutations); unsupported leaves at every position of every container shape; non-trivial = container value or unsupported-leaf case, distinct by construction")
    # (a) valid values
    chunks = [vals[i::64] for i in range(64)]
    results = pmap(check_values, chunks)
    total = sum(n for n, _ in results)
    bads = [b for _, bs in results for b in bs]
    rep.add_enumeration("valid-roundtrip", total, sum(1 for v in vals if isinstance(v, (list, tuple, dict, set, frozenset))), {"leaves": len(E.LEAVES), "values": len(vals)})
    for v in vals[:: max(1, len(vals) // 6)]:
        rep.sample(srepr(v, 120))
    seen = set()
    for kind, vr, detail in bads:
        key = key_for(kind, vr, detail)
        if key in seen:
            continue
        seen.add(key)
        rep.violation(key, f"dumps/loads of {vr}: {kind} {detail}", {"check": PID, "sub": "valid-roundtrip", "value": vr, "detail": detail})
    # huge ints (separately: they are slow)
    n, bs = check_values(E.HUGE_INTS)
    rep.add_enumeration("huge-ints", n, n)
    for kind, vr, detail in bs[:1]:
        rep.violation(key_for(kind, vr, detail), f"dumps/loads of an int with more than 4300 digits: {detail}", {"check": PID, "sub": "huge-ints", "detail": detail})
    # (b) invalid values at every position
    cases = []
    for lname, leaf in E.unsupported_leaves():
        for sname, shape in E.shapes_with_hole():
            cases.append((f"{lname}@{sname}", shape, leaf))
        if E.is_hashable(leaf):
            for sname, shape in E.hashable_shapes_with_hole():
                cases.append((f"{lname}@{sname}", shape, leaf))
    nbad = 0
    for name, shape, leaf in cases:
        v = shape(leaf)
        try:
            b = execnet.dumps(v)
            try:
                back = repr(execnet.loads(b))[:80]
            except Exception as e:  # noqa: BLE001
                back = type(e).__name__
            key = "c01:subclass-name-collision-accepted" if name.startswith("collide-") else "c01:unsupported-accepted"
            rep.violation(key, f"dumps accepted a value containing {name} ({type(leaf).__mro__[:2]}); it loads back as {back}", {"check": PID, "sub": "invalid", "case": name})
            nbad += 1
        except execnet.DumpError:
            pass
        except BaseException as e:  # noqa: BLE001
            rep.violation("c01:unsupported-wrong-exception", f"dumps of {name} raised {type(e).__name__}: {e} instead of DumpError", {"check": PID, "sub": "invalid", "case": name})
    rep.add_enumeration("invalid-rejected", len(cases), len(cases), {"unsupported_leaves": len(E.unsupported_leaves())})
    rep.sample({"invalid case": cases[5][0]})
    # (c) the channel path, virtual gateway, default schedule (sequential property)
    chvals = E.LEAVES + [v for v in vals[len(E.LEAVES) :: max(1, len(vals) // (150 if tier == "quick" else 1500))]]
    chvals = [v for v in chvals if not (type(v) is int and v < -(2**31) and "c01:int-below-minus-2**31" in seen)]
    ChanScn.VALUES = chvals
    ChanScn.INVALID = [(n, s(leaf)) for n, leaf in E.unsupported_leaves()[:12] + [u for u in E.unsupported_leaves()[12:] if u[0] == "bad-str" or u is E.unsupported_leaves()[-1]] for s in (lambda x: x, lambda x: [1, {"k": x}])]
    for tr in ("popen", "socket", "via"):
        res = explorer.run_once(ChanScn.scenario, ChanScn.oracle, {"transport": tr}, [], horizon=5000000)
        rep.add_enumeration(f"channel-{tr}", len(chvals) + len(ChanScn.INVALID), len(ChanScn.INVALID))
        if res.violation is not None:
            rep.violation(res.violation[0], f"[channel path over virtual {tr}] {res.violation[1]}", {"check": PID, "sub": "chan", "transport": tr})
    # concurrent serialisation: statement-level preemption INSIDE the (un)serializer and dumps/loads helpers
    ser = harness.stmt_mask(lambda m, q, l: m == "gateway_base" and (q.startswith("_Serializer.") or q.startswith("Unserializer.") or q in ("dumps_internal", "loads_internal", "Channel.send", "Message.to_io", "Message.from_io", "Message.__init__")))
    for gwn in (1, 2):
        P = {"gateways": gwn, "rounds": 1}
        harness.run_exploration(rep, PID, f"conc/{gwn}gw/stmt", ConcSendScn, P, {"ps": 0, "pl": 1, "free": 0} if tier == "quick" else {"ps": 0, "pl": 2, "free": 0}, stmt=ser, max_execs=1500000)
    rep.assumptions += ["the channel clause is sequential: checked on the default schedule of the virtual gateway", "sets are compared as unordered collections, dicts in insertion order, floats by bit pattern"]
    return rep.finish()


def replay(path: str) -> int:
    import json

    print(json.load(open(path)))
    return 1
