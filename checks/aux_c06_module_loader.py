"""imports checks/c06_module.py as a module object without executing its body
(its body needs `channel`); remote_exec(module) only uses inspect.getsource"""

import importlib.util
import os
import types


def load():
    path = os.path.join(os.path.dirname(__file__), "aux_c06_module.py")
    mod = types.ModuleType("aux_c06_module")
    mod.__file__ = path
    spec = importlib.util.spec_from_file_location("aux_c06_module", path)
    mod.__spec__ = spec
    mod.__loader__ = spec.loader
    import sys

    sys.modules.setdefault("aux_c06_module", mod)
    return mod
