"""C18 -- channel ids never collide; channels travel over channels intact; no growth."""

from __future__ import annotations

from engine import evidence
from engine import harness

from .common import Session

PID = "C18"

WORKER_ALLOC = '''
em = channel.gateway.execmodel
W = em.world
spec = {spec!r}
gwy = channel.gateway
evs = []
def alloc(t, k):
    try:
        for j in range(k):
            c = gwy.newchannel()
            W.observe("wid", t, j, c.id)
            c.send(("from-worker", t, j))     # arrives at the initiator on that id
            keep.append(c)
    finally:
        evs[t].set()
keep = []
for t in range(spec["wthreads"]):
    evs.append(em.Event())
channel.receive()   # go
for t in range(1, spec["wthreads"]):
    em.start(alloc, (t, spec["k"]))
alloc(0, spec["k"])
for ev in evs:
    ev.wait()
channel.send(sorted(c.id for c in keep))
channel.receive()   # hold the channels until the initiator looked
'''


class AllocScn:
    """P: ithreads, wthreads, k (allocations per thread), mix (initiator threads alternate newchannel/remote_exec)"""

    @staticmethod
    def scenario(w, P):
        S = Session(w, P.get("transport", "popen"), P.get("backend", "thread"))

        def main():
            gw = S.open()
            ctl = gw.remote_exec(WORKER_ALLOC.format(spec={"wthreads": P["wthreads"], "k": P["k"]}))
            keep = []
            S.ctx["keep"] = keep
            w.exploring = True
            ctl.send("go")

            def alloc(t):
                for j in range(P["k"]):
                    if P.get("mix") and (t + j) % 2:
                        c = gw.remote_exec("channel.send(('echo', channel.receive()))")
                        c.send((t, j))
                        w.observe("iid", t, j, c.id, "exec")
                    else:
                        c = gw.newchannel()
                        w.observe("iid", t, j, c.id, "new")
                    keep.append(c)

            def failer():
                # calls that fail AFTER their channel id was allocated (the kwargs cannot be serialised)
                from checks import aux_c06_funcs as F

                for j in range(2):
                    try:
                        gw.remote_exec(F.check_kwargs, text="t", data=object(), n=j)
                        w.observe("fail", j, "accepted")
                    except BaseException as e:  # noqa: BLE001
                        w.observe("fail", j, type(e).__name__)

            for t in range(P["ithreads"]):
                S.user(alloc, f"alloc{t}", (t,))
            if P.get("failer"):
                S.user(failer, "failer")
            S.join_users()
            if P.get("failer"):
                # ids handed out after the failed calls must not collide with live channels
                for j in range(2):
                    c = gw.newchannel()
                    w.observe("iid", "late", j, c.id, "new")
                    keep.append(c)
            wids = ctl.receive(timeout=20)
            w.observe("wids", wids)
            # every exec channel echoes its own tag: cross-connection would mix them up
            for e in list(w.obs):
                if e[0] == "iid" and e[4] == "exec":
                    c = [x for x in keep if x.id == e[3]]
                    try:
                        w.observe("echo", e[1], e[2], c[0].receive(timeout=10) if c else None)
                    except BaseException as ex:  # noqa: BLE001
                        w.observe("echo-exc", e[1], e[2], type(ex).__name__)
            # items sent by the worker on its own new ids must not show up on initiator-created channels
            for c in keep:
                if c.id % 2 == 1 and not c.isclosed():
                    try:
                        x = c.receive(timeout=0)
                        w.observe("cross", c.id, x)
                    except BaseException:  # noqa: BLE001
                        pass
            w.exploring = False
            ctl.send("done")
            w.observe("main-done")
            S.group.terminate(timeout=2.0)

        S.main(main)
        return S

    @staticmethod
    def oracle(w, S, P):
        obs = w.obs
        iids = [e[3] for e in obs if e[0] == "iid"]
        wids = [e[3] for e in obs if e[0] == "wid"]
        outcome = (tuple((e[1], e[3]) for e in obs if e[0] == "iid"), tuple((e[1], e[3]) for e in obs if e[0] == "wid"))

        def V(key, msg):
            return (f"c18:{key}", f"{msg}\n  params={P}\n  obs={obs}\n  blocked={w.blocked_at_end}\n  stderr={w.stderr.getvalue()[-600:]}"), outcome

        if ("main-done",) not in obs:
            return V("hang", "main never finished")
        if len(iids) != P["ithreads"] * P["k"] + (2 if P.get("failer") else 0) or len(wids) != P["wthreads"] * P["k"]:
            return V("missing", f"allocations: initiator {iids} worker {wids}")
        if len(set(iids)) != len(iids):
            return V("id-collision", f"initiator handed out duplicate channel ids {iids}")
        if len(set(wids)) != len(wids):
            return V("id-collision", f"worker handed out duplicate channel ids {wids}")
        if set(iids) & set(wids) or 1 in set(wids) | set(iids) and False:
            return V("id-collision", f"both sides allocated the same id: {set(iids) & set(wids)}")
        if any(i % 2 == 0 for i in iids) or any(i % 2 == 1 for i in wids):
            return V("id-parity", f"initiator ids {iids} must be odd, worker ids {wids} even")
        for e in obs:
            if e[0] == "fail" and e[2] != "DumpError":
                return V("failed-exec", f"remote_exec with an unserialisable argument: {e}")
            if e[0] == "echo" and e[3] != ("echo", (e[1], e[2])):
                return V("cross-connected", f"exec channel of thread {e[1]} alloc {e[2]} echoed {e[3]!r}")
            if e[0] in ("echo-exc", "cross"):
                return V("cross-connected", f"{e}")
        return None, outcome


TRANSFER_BODY = '''
em = channel.gateway.execmodel
W = em.world
spec = {spec!r}
def find(x):
    if type(x).__name__ == "Channel":
        return x
    if isinstance(x, dict):
        x = list(x.values()) + list(x.keys())
    if isinstance(x, (list, tuple, set, frozenset)):
        for y in x:
            r = find(y)
            if r is not None:
                return r
    return None
if spec["dir"] == "to-worker":
    box = channel.receive()
    c = find(box)
    W.observe("arrived", type(c).__name__, getattr(c, "id", None), type(box).__name__)
    a = c.receive(); b = c.receive()
    c.send(("reply", a, b))
    if spec["end"] == "close":
        c.close()
    elif spec["end"] == "drop":
        del c, box
    elif spec["end"] == "error":
        c.close("some error text")
else:
    c = channel.gateway.newchannel()
    shape = spec["shape"]
    box = {{"bare": c, "list": [1, c], "tuple": (c, 2), "dict": {{"k": c}}, "nested": ([{{"k": (c,)}}],), "set": (frozenset([c]),)}}[shape]
    channel.send(box)
    W.observe("sent-id", c.id)
    c.send(("item", 0)); c.send(("item", 1))
    r = c.receive()
    W.observe("wreply", r)
    del box
    if spec["end"] == "close":
        c.close()
    elif spec["end"] == "drop":
        del c
    elif spec["end"] == "error":
        c.close("some error text")
'''


def _find(x):
    if type(x).__name__ == "Channel":
        return x
    if isinstance(x, dict):
        x = list(x.values()) + list(x.keys())
    if isinstance(x, (list, tuple, set, frozenset)):
        for y in x:
            r = _find(y)
            if r is not None:
                return r
    return None


class TransferScn:
    """P: m cycles of {open, transfer in `shape`, 2-item conversation, end}; dir; end"""

    @staticmethod
    def scenario(w, P):
        S = Session(w, P.get("transport", "popen"), P.get("backend", "thread"))

        def sizes(gw):
            # public view: "<Gateway ... N active channels>"; the callback table has no public view
            import re

            m = re.search(r"(\d+) active channels", repr(gw))
            nch = int(m.group(1)) if m else -1
            f = getattr(gw, "_channelfactory", None)
            ncb = len(getattr(f, "_callbacks", ())) if f is not None else 0
            return (nch, ncb)

        def main():
            import gc

            gw = S.open()
            em = S.proc.execmodel
            w.exploring = bool(P.get("explore", True))
            base = sizes(gw)
            rbase = gw.remote_status().numchannels
            for cyc in range(P["m"]):
                spec = {"dir": P["dir"], "shape": P["shape"], "end": P["end"]}
                ctl = gw.remote_exec(TRANSFER_BODY.format(spec=spec))
                if P["dir"] == "to-worker":
                    c = gw.newchannel()
                    box = {"bare": c, "list": [1, c], "tuple": (c, 2), "dict": {"k": c}, "nested": ([{"k": (c,)}],), "set": (frozenset([c]),)}[P["shape"]]
                    ctl.send(box)
                    del box
                    w.observe("sent-id", c.id)
                    c.send(("item", 0))
                    c.send(("item", 1))
                    try:
                        w.observe("reply", c.receive(timeout=20))
                    except BaseException as e:  # noqa: BLE001
                        w.observe("reply-exc", type(e).__name__, str(e)[:80])
                else:
                    box = ctl.receive(timeout=20)
                    c = _find(box)
                    w.observe("arrived", type(c).__name__, getattr(c, "id", None), type(box).__name__)
                    del box
                    a = c.receive(timeout=20)
                    b = c.receive(timeout=20)
                    c.send(("reply", a, b))
                try:
                    c.waitclose(20)
                except c.RemoteError:
                    pass
                except BaseException as e:  # noqa: BLE001
                    w.observe("waitclose-exc", type(e).__name__)
                try:
                    ctl.waitclose(20)
                except BaseException as e:  # noqa: BLE001
                    w.observe("ctl-exc", type(e).__name__, str(e)[-200:])
                del c, ctl
            w.exploring = False
            em.sleep(1.0)  # quiescence: the worker unregisters after it sent the close frame
            S.ctx["sizes"] = (base, sizes(gw), rbase, gw.remote_status().numchannels)
            w.observe("main-done")
            S.group.terminate(timeout=2.0)

        S.main(main)
        return S

    @staticmethod
    def oracle(w, S, P):
        obs = w.obs
        sz = S.ctx.get("sizes")
        outcome = (sz,)

        def V(key, msg):
            return (f"c18:{key}", f"{msg}\n  params={P}\n  obs={obs[-12:]}\n  blocked={w.blocked_at_end}\n  stderr={w.stderr.getvalue()[-600:]}"), outcome

        if ("main-done",) not in obs:
            return V("hang", "main never finished")
        for e in obs:
            if e[0] in ("reply-exc", "waitclose-exc", "ctl-exc"):
                return V("conversation", f"{e}")
        sent = [e[1] for e in obs if e[0] == "sent-id"]
        arrived = [e for e in obs if e[0] == "arrived"]
        if len(sent) != P["m"] or len(arrived) != P["m"]:
            return V("conversation", f"sent {sent} arrived {arrived}")
        for s_id, a in zip(sent, arrived):
            if a[1] != "Channel" or a[2] != s_id:
                return V("transfer", f"channel {s_id} arrived as {a}")
        want = ("reply", ("item", 0), ("item", 1))
        replies = [e[1] for e in obs if e[0] in ("reply", "wreply")]
        if replies != [want] * P["m"]:
            return V("conversation", f"replies {replies}")
        base, after, rbase, rafter = sz
        if after[0] > base[0] or after[1] > base[1]:
            return V("growth", f"initiator channel tables grew from {base} to {after} after {P['m']} finished conversations")
        if rafter > rbase:
            return V("growth", f"remote numchannels grew from {rbase} to {rafter} after {P['m']} finished conversations")
        return None, outcome


class CallbackCycleScn:
    """m conversations on channels whose only receiver is a callback and whose handle was dropped;
    every ending must deliver the endmarker and forget the callback entry"""

    @staticmethod
    def scenario(w, P):
        S = Session(w, P.get("transport", "popen"), "thread")

        def main():
            import re

            gw = S.open()
            em = S.proc.execmodel
            w.exploring = bool(P.get("explore", True))

            def sizes():
                m = re.search(r"(\d+) active channels", repr(gw))
                f = getattr(gw, "_channelfactory", None)
                return (int(m.group(1)) if m else -1, len(getattr(f, "_callbacks", ())) if f is not None else 0)

            base = sizes()
            ends = []
            for cyc in range(P["m"]):
                ev = em.Event()
                got = []

                def cb(x, ev=ev, got=got):
                    got.append(x)
                    if x == "END":
                        ends.append(cyc)
                        ev.set()
                    elif P["end"] in ("cb-raises", "cb-raises-peer-keeps"):
                        raise ValueError("callback failure")

                if P["end"] == "cb-raises-peer-keeps":
                    # the peer never closes its end and goes on sending: the failed callback conversation
                    # must still be over on this side (endmarker once, nothing after it, entry forgotten)
                    ctl = gw.remote_exec("c = channel.receive()\nc.send(1)\nc.send(2)\nchannel.gateway._vp_keep = getattr(channel.gateway, '_vp_keep', []) + [c]\nchannel.send('sent')")
                    ch = gw.newchannel()
                    ch.setcallback(cb, endmarker="END")
                    ctl.send(ch)
                    del ch
                    ctl.receive(timeout=10)
                    if not ev.wait(20):
                        w.observe("no-endmarker", cyc, list(got))
                    em.sleep(0.5)
                    if got != [1, "END"]:
                        w.observe("calls-after-failure", cyc, list(got))
                    continue
                if P["end"] == "drop-then-body-eof":
                    # the body blocks in receive(); dropping our handle makes its end "sendonly", its receive()
                    # raises EOFError and the body returns: the end of the execution must still close the channel
                    ch = gw.remote_exec("channel.send(1)\nchannel.receive()")
                elif P["end"] == "remote-close":
                    ch = gw.remote_exec("channel.send(1)")
                elif P["end"] == "cb-raises":
                    ch = gw.remote_exec("channel.receive()\nchannel.send(1)\ntry:\n    channel.waitclose(5)\nexcept Exception:\n    pass")
                else:  # remote error
                    ch = gw.remote_exec("channel.send(1)\nraise KeyError('x')")
                ch.setcallback(cb, endmarker="END")
                if P["end"] == "cb-raises":
                    ch.send("go")
                del ch
                if not ev.wait(20):
                    w.observe("no-endmarker", cyc, list(got))
            w.exploring = False
            em.sleep(1.0)
            S.ctx["sizes"] = (base, sizes())
            S.ctx["ends"] = len(ends)
            w.observe("main-done")
            S.group.terminate(timeout=2.0)

        S.main(main)
        return S

    @staticmethod
    def oracle(w, S, P):
        obs = w.obs
        sz = S.ctx.get("sizes")
        outcome = (sz, S.ctx.get("ends"))
        if ("main-done",) not in obs:
            return ("c18:hang", f"P={P} blocked={w.blocked_at_end} stderr={w.stderr.getvalue()[-400:]}"), outcome
        for e in obs:
            if e[0] == "no-endmarker":
                return ("c18:dropped-callback-channel-never-ended", f"P={P}: conversation {e[1]} ended but the endmarker never arrived (callback saw {e[2]})"), outcome
        for e in obs:
            if e[0] == "calls-after-failure":
                return ("c18:failed-callback-conversation-not-over", f"P={P}: the callback failed on the first item; it was called with {e[2]} (expected the item, then the endmarker, nothing else)"), outcome
        base, after = sz
        if after[0] > base[0] or after[1] > base[1]:
            return ("c18:growth", f"P={P}: channel tables grew from {base} to {after} after {P['m']} finished callback conversations"), outcome
        return None, outcome


class CycleDropScn:
    """the last handle of an open channel goes away through the cyclic garbage collector (weak
    references are cleared before finalizers run): the peer must still be told"""

    @staticmethod
    def scenario(w, P):
        import gc

        gc.collect()  # nothing stale may be finalised in the middle of this execution
        S = Session(w, P.get("transport", "popen"), "thread")

        class Holder:
            pass

        def main():
            gw = S.open()
            em = S.proc.execmodel
            if P["who"] == "init":
                ctl = gw.remote_exec("c = channel.receive()\nn = 0\nfor x in c:\n    n += 1\nchannel.send(('eof-seen', n))")
                c = gw.newchannel()
                ctl.send(c)
                c.send(1)
                if P.get("callback"):
                    c.setcallback(lambda x: None)
                h = Holder()
                h.c = c
                h.me = h
                del c, h
                if P.get("gc_anywhere"):
                    # the collector runs at ANY statement of the channel / gateway code this thread
                    # executes next (one environment deviation), or at the latest afterwards
                    from engine import instrument

                    w.gc_mask = instrument.select(lambda m, q, l: (m == "gateway_base" and (q.startswith("Channel.") or q.startswith("ChannelFactory.") or q.startswith("BaseGateway._send") or q.startswith("BaseGateway.newchannel") or q.startswith("Message.to_io"))) or (m == "gateway" and q.startswith("Gateway.remote_exec")))
                    w.gc_proc = S.proc
                    w.exploring = True
                    try:
                        d = gw.remote_exec("channel.send(channel.receive() + 1)")
                        d.send(1)
                        w.observe("second", d.receive(timeout=10))
                        e = gw.newchannel()
                        e.close()
                        d.waitclose(10)
                    except BaseException as ex:  # noqa: BLE001
                        w.observe("second-exc", type(ex).__name__, str(ex)[:100])
                    w.exploring = False
                    w.gc_mask = None
                gc.collect()
            else:
                ctl = gw.remote_exec(
                    "import gc\nclass H: pass\nc = channel.gateway.newchannel()\nchannel.send(c)\nc.send(1)\nh = H(); h.c = c; h.me = h\ndel c, h\ngc.collect()\nchannel.send('dropped')\nchannel.receive()"
                )
                c = ctl.receive(timeout=10)
                ctl.receive(timeout=10)
                n = 0
                try:
                    for x in iter(lambda: c.receive(timeout=10), object()):
                        n += 1
                except EOFError:
                    w.observe("init-eof-seen", n)
                except BaseException as e:  # noqa: BLE001
                    w.observe("init-exc", type(e).__name__)
                ctl.send("done")
            try:
                w.observe("ctl", ctl.receive(timeout=10) if P["who"] == "init" else "n/a")
            except BaseException as e:  # noqa: BLE001
                w.observe("ctl-exc", type(e).__name__)
            em.sleep(0.5)
            w.observe("remote-channels", gw.remote_status().numchannels)
            w.observe("main-done")
            S.group.terminate(timeout=2.0)

        S.main(main)
        return S

    @staticmethod
    def oracle(w, S, P):
        obs = w.obs
        out = tuple(e[0] for e in obs)
        if ("main-done",) not in obs:
            return ("c18:hang", f"P={P} obs={obs} blocked={w.blocked_at_end}"), out
        if P.get("gc_anywhere") and ("second", 2) not in obs:
            return ("c18:gc-disturbed-conversation", f"P={P}: a collection in the middle of another conversation disturbed it: {obs}"), out
        if P["who"] == "init":
            if ("ctl", ("eof-seen", 1)) not in obs:
                return ("c18:dropped-channel-not-forgotten", f"P={P}: the channel handle went away through the cyclic garbage collector but the peer never saw the end of the conversation: {obs}"), out
        elif ("init-eof-seen", 1) not in obs:
            return ("c18:dropped-channel-not-forgotten", f"P={P}: the worker dropped its channel through the cyclic garbage collector but the initiator never saw the end: {obs}"), out
        return None, out


SCENARIOS = {"alloc": AllocScn, "transfer": TransferScn, "cbcycle": CallbackCycleScn, "cycledrop": CycleDropScn}


def stmt_pred(m, q, l):
    return m == "gateway_base" and (q.startswith("ChannelFactory.") or q.startswith("Channel.__init__") or q.startswith("BaseGateway.newchannel") or q == "Unserializer.load_channel")


def run(tier: str, only=None) -> int:
    rep = evidence.Report(PID, tier, "model_checking")
    rep.rule.append("concurrent newchannel/remote_exec on both sides x all interleavings within bounds; channel transfer in 6 container shapes x 2 directions x 4 endings; m open/transfer/close cycles (m<=2 explored, m=200 on the default schedule)")
    rep.assumptions += ["table sizes are compared with their baseline at quiescence (the worker unregisters after it sent the close frame)", "virtual primitives / statement granularity as in DESIGN 7"]
    stmt = harness.stmt_mask(stmt_pred)
    cap = 300000 if tier == "quick" else 6000000
    allocs = [
        {"ithreads": 2, "wthreads": 2, "k": 1},
        {"ithreads": 2, "wthreads": 1, "k": 2, "mix": True},
        {"ithreads": 1, "wthreads": 2, "k": 2},
    ]
    if tier == "thorough":
        allocs.append({"ithreads": 3, "wthreads": 2, "k": 2, "mix": True})
    for i, A in enumerate(allocs):
        name = f"alloc/{i}"
        if only and only not in name:
            continue
        rep.sample({"sub": name, "params": A})
        mo = 2 if A["ithreads"] > 1 else 0
        if tier == "quick":
            b1 = {"ps": 2, "free": 1} if i == 0 else {"ps": 1, "free": 1}
            b2 = {"ps": 0, "pl": 2, "free": 1} if i == 0 else {"ps": 0, "pl": 1, "free": 1}
        elif A["ithreads"] > 2:
            b1, b2 = {"ps": 1, "free": 1}, {"ps": 0, "pl": 1, "free": 1}
        else:
            b1, b2 = {"ps": 2, "free": 2}, {"ps": 0, "pl": 2, "free": 1}
        harness.run_exploration(rep, PID, name + "/sync", AllocScn, A, b1, max_execs=cap, min_outcomes=mo)
        harness.run_exploration(rep, PID, name + "/stmt", AllocScn, A, b2, stmt=stmt, max_execs=cap)
    # calls failing after their id was allocated, racing with allocations of other threads
    stmt_f = harness.stmt_mask(lambda m, q, l: stmt_pred(m, q, l) or (m == "gateway" and q.startswith("Gateway.remote_exec")))
    for i, A in enumerate(({"ithreads": 1, "wthreads": 1, "k": 2, "failer": True}, {"ithreads": 1, "wthreads": 1, "k": 2, "mix": True, "failer": True})):
        name = f"alloc-failing/{i}"
        if only and only not in name:
            continue
        harness.run_exploration(rep, PID, name + "/sync", AllocScn, A, {"ps": 1, "free": 1} if tier == "quick" else {"ps": 2, "free": 1}, max_execs=cap)
        harness.run_exploration(rep, PID, name + "/stmt", AllocScn, A, {"ps": 0, "pl": 1, "free": 0} if tier == "quick" else {"ps": 0, "pl": 2, "free": 1}, stmt=stmt_f, max_execs=cap)
    n = 0
    for d in ("to-worker", "to-init"):
        for shape in ("bare", "list", "tuple", "dict", "nested", "set"):
            for end in ("close", "drop", "error"):
                n += 1
                name = f"transfer/{d}:{shape}:{end}"
                if only and only not in name:
                    continue
                if tier == "quick" and shape not in ("bare", "nested") and end != "close":
                    continue
                P = {"dir": d, "shape": shape, "end": end, "m": 2}
                harness.run_exploration(rep, PID, name + "/m2", TransferScn, P, {"ps": 1, "free": 0} if tier == "quick" else {"ps": 1, "free": 1}, max_execs=cap)
                if shape in ("bare", "nested"):
                    P = {"dir": d, "shape": shape, "end": end, "m": 200 if tier == "quick" else 1000, "explore": False}
                    harness.run_exploration(rep, PID, name + "/m-many", TransferScn, P, {"ps": 0, "free": 0}, max_execs=10, horizon=2000000)
    for tr in ("socket", "via"):
        name = f"alloc/0/{tr}"
        if not only or only in name:
            harness.run_exploration(rep, PID, name, AllocScn, dict(allocs[0], transport=tr), {"ps": 1, "free": 0}, max_execs=cap)
        for end in ("remote-close", "cb-raises"):
            name = f"cbcycle/{end}/{tr}"
            if not only or only in name:
                harness.run_exploration(rep, PID, name, CallbackCycleScn, {"end": end, "m": 2, "transport": tr}, {"ps": 1, "free": 0}, max_execs=cap)
        name = f"transfer/nested/{tr}"
        if not only or only in name:
            harness.run_exploration(rep, PID, name, TransferScn, {"dir": "to-worker", "shape": "nested", "end": "drop", "m": 2, "transport": tr}, {"ps": 1, "free": 0}, max_execs=cap)
    for who in ("init", "worker"):
        name = f"cycledrop/{who}"
        if only and only not in name:
            continue
        harness.run_exploration(rep, PID, name, CycleDropScn, {"who": who}, {"ps": 0, "free": 0}, max_execs=10)
    for cb in (False, True):
        name = f"cycledrop/gc-anywhere{':cb' if cb else ''}"
        if only and only not in name:
            continue
        harness.run_exploration(rep, PID, name, CycleDropScn, {"who": "init", "gc_anywhere": True, "callback": cb}, {"ps": 0, "env": 1, "free": 0} if tier == "quick" else {"ps": 1, "env": 1, "free": 0}, max_execs=cap)
    for end in ("remote-close", "remote-error", "cb-raises", "cb-raises-peer-keeps", "drop-then-body-eof"):
        name = f"cbcycle/{end}"
        if only and only not in name:
            continue
        harness.run_exploration(rep, PID, name + "/m2", CallbackCycleScn, {"end": end, "m": 2}, {"ps": 1, "free": 0} if tier == "quick" else {"ps": 2, "free": 1}, max_execs=cap)
        harness.run_exploration(rep, PID, name + "/m-many", CallbackCycleScn, {"end": end, "m": 100 if tier == "quick" else 1000, "explore": False}, {"ps": 0, "free": 0}, max_execs=10, horizon=3000000)
    return rep.finish()


def replay(path: str) -> int:
    return harness.replay_file(path, SCENARIOS, stmt_for=lambda d: harness.stmt_mask(stmt_pred))
