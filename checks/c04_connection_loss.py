"""C04 -- connection loss at any byte never hangs or corrupts the survivor.

The worker->initiator stream is cut at *every* byte offset (an explorer choice of class
"cut"); the worker process dies at that instant.  Per execution the expectation is
computed from the bytes that were actually written before the cut.
"""

from __future__ import annotations

import struct

from engine import evidence
from engine import explorer
from engine import harness

from .common import Session

PID = "C04"

WORKER = '''
em = channel.gateway.execmodel
spec = {spec!r}
chans = [channel]
for i in range(spec["extra"]):
    chans.append(channel.receive())
channel.receive()                     # "go": the cut is armed now
for ci, size in spec["items"]:
    chans[ci].send(("item", ci, b"p" * size))
for ci in spec["closes"]:
    if ci:
        chans[ci].close()
if spec["block"]:
    em.Event().wait()
'''


def parse_frames(data: bytes):
    """independent framing: header '!bii' + payload; returns complete frames and leftover"""
    out = []
    pos = 0
    while len(data) - pos >= 9:
        code, cid, n = struct.unpack("!bii", data[pos : pos + 9])
        if len(data) - pos - 9 < n:
            break
        out.append((code, cid, data[pos + 9 : pos + 9 + n]))
        pos += 9 + n
    return out, data[pos:]


class CutScn:
    """P: items [(chan index, size)], extra (transferred channels), closes [chan idx],
    block, receivers {ci: n}, waiters {ci: n}, callback: ci or None, inflight: bool,
    transport, N (stream length from the reference run; None = reference run)"""

    @staticmethod
    def scenario(w, P):
        S = Session(w, P.get("transport", "popen"), P.get("backend", "thread"))
        w.short_reads = bool(P.get("short_reads"))
        if P.get("rst"):
            w.opts["rst_on_death"] = True

        def main():
            gw = S.open()
            em = S.proc.execmodel
            spec = {"items": P["items"], "extra": P["extra"], "closes": P["closes"], "block": P["block"]}
            ctl = gw.remote_exec(WORKER.format(spec=spec))
            chans = [ctl]
            for _ in range(P["extra"]):
                c = gw.newchannel()
                ctl.send(c)
                chans.append(c)
            inflight = gw.remote_exec("channel.gateway.execmodel.Event().wait()") if P.get("inflight") else None
            em.sleep(1.0)
            pipe = down_pipe(S)
            pipe.record = bytearray()
            S.ctx["pipe"] = pipe
            S.ctx["ids"] = [c.id for c in chans]
            cbcalls = []
            S.ctx["cb"] = cbcalls
            END = ("END",)
            w.exploring = True
            if P.get("N") is not None:
                ks = P.get("ks") or list(range(P["N"] + 1))
                c = w.chooser.choose(w, len(ks) + 1, "cut", "cut-offset")
                if c:
                    pipe.cut_at = pipe.total + ks[c - 1]
                S.ctx["k"] = ks[c - 1] if c else None
            def probe(ci, who):
                """right after the loss was observed on a channel: new conversations must be refused,
                and whatever is still handed out must not hang"""
                for name, fn in (("newchannel", gw.newchannel), ("remote_exec", lambda: gw.remote_exec("pass"))):
                    try:
                        c2 = fn()
                    except OSError:
                        w.observe("probe", ci, who, name, "OSError")
                        continue
                    except BaseException as e:  # noqa: BLE001
                        w.observe("probe", ci, who, name, type(e).__name__)
                        continue
                    try:
                        c2.receive(timeout=30)
                        res = "item"
                    except BaseException as e:  # noqa: BLE001
                        res = type(e).__name__
                    w.observe("probe", ci, who, name, "handed-out", res)

            for ci, n in P["receivers"].items():
                for r in range(n):

                    def rc(ci=int(ci), r=r):
                        ch = chans[ci]
                        got = []
                        try:
                            while True:
                                got.append(ch.receive())
                        except EOFError:
                            w.observe("recv", ci, r, got, "EOFError")
                            probe(ci, f"r{r}")
                        except BaseException as e:  # noqa: BLE001
                            w.observe("recv", ci, r, got, type(e).__name__, str(e)[:80])
                        try:
                            ch.receive()
                            w.observe("recv2", ci, r, "returned")
                        except EOFError:
                            pass
                        except BaseException as e:  # noqa: BLE001
                            w.observe("recv2", ci, r, type(e).__name__)

                    S.user(rc, f"recv{ci}.{r}")
            for ci, n in P["waiters"].items():
                for r in range(n):

                    def wc(ci=int(ci), r=r):
                        ch = chans[ci]
                        try:
                            ch.waitclose()
                            w.observe("waitclose", ci, r, "returned")
                        except BaseException as e:  # noqa: BLE001
                            w.observe("waitclose", ci, r, type(e).__name__)
                            if isinstance(e, EOFError):
                                probe(ci, f"w{r}")

                    S.user(wc, f"wait{ci}.{r}")
            if P.get("sender") is not None:

                def snd(ci=P["sender"]):
                    # keeps sending small items: some send fails once the peer is gone, which leaves
                    # unflushed bytes in the (BufferedWriter-like) pipe writer
                    try:
                        for i in range(8):
                            chans[ci].send(i)
                        w.observe("sender", "done")
                    except OSError:
                        w.observe("sender", "OSError")
                    except BaseException as e:  # noqa: BLE001
                        w.observe("sender", type(e).__name__)

                S.user(snd, "sender")
            if P.get("callback") is not None:

                def cbf(x):
                    cbcalls.append(x)
                    if x != END and P.get("cb_raises_item") and len(cbcalls) == 1:
                        raise ValueError("this callback fails on its first item")
                    if x == END and P.get("cb_raises_end"):
                        raise ValueError("this callback fails on its endmarker")

                chans[P["callback"]].setcallback(cbf, endmarker=END)
                if P.get("cb_dropped"):
                    # only the callback is left of this channel: its handle is gone before the peer dies
                    chans[P["callback"]] = None
            if inflight is not None:

                def infl():
                    try:
                        inflight.receive()
                        w.observe("inflight", "returned")
                    except BaseException as e:  # noqa: BLE001
                        w.observe("inflight", type(e).__name__)

                S.user(infl, "inflight")
            ctl.send("go")
            if P.get("N") is not None and S.ctx["k"] is not None:
                S.join_users()
                em.sleep(2.0)
                w.exploring = False
                # from then on
                res = []
                for name, fn in (
                    ("send", lambda: chans[0].send(1) if not chans[0].isclosed() else (_ for _ in ()).throw(OSError("closed"))),
                    ("remote_exec", lambda: gw.remote_exec("pass")),
                    ("newchannel", lambda: gw.newchannel()),
                ):
                    try:
                        fn()
                        res.append((name, "ok"))
                    except OSError:
                        res.append((name, "OSError"))
                    except BaseException as e:  # noqa: BLE001
                        res.append((name, type(e).__name__))
                w.observe("after", res, gw.hasreceiver())
            else:
                # reference run: let the whole stream arrive
                em.sleep(5.0)
                w.exploring = False
            w.observe("main-done")
            S.ctx["cbfinal"] = list(cbcalls)
            S.group.terminate(timeout=1.0)

        S.main(main)
        return S

    @staticmethod
    def oracle(w, S, P):
        from execnet.gateway_base import loads_internal

        obs = w.obs
        pipe = S.ctx.get("pipe")
        k = S.ctx.get("k")
        outcome = (k is not None, len(pipe.record) if pipe is not None and pipe.record is not None else -1)
        if P.get("N") is None:
            S.ctx["ref_stream"] = bytes(pipe.record)
            REF["stream"] = bytes(pipe.record)
        if P.get("N") is None or k is None:
            return None, outcome

        def V(key, msg):
            return (f"c04:{key}", f"{msg}\n  cut offset k={k}\n  params={P}\n  obs={obs}\n  blocked={w.blocked_at_end}\n  stderr={w.stderr.getvalue()[-800:]}"), outcome

        if ("main-done",) not in obs:
            return V("hang", "a receive/waitclose on the survivor blocked forever")
        frames, rest = parse_frames(bytes(pipe.record))
        ids = S.ctx["ids"]
        want = {ci: [] for ci in range(len(ids))}
        closed_clean = set()
        for code, cid, payload in frames:
            if cid in ids:
                ci = ids.index(cid)
                if code == 4:
                    want[ci].append(loads_internal(payload))
                elif code in (5, 6, 7):
                    closed_clean.add(ci)
        END = ("END",)
        for ci, n in P["receivers"].items():
            ci = int(ci)
            rs = [e for e in obs if e[0] == "recv" and e[1] == ci]
            if len(rs) != n:
                return V("hang", f"receivers of channel {ci} did not all finish: {rs}")
            for e in rs:
                if e[4] != "EOFError":
                    return V("wrong-exception", f"receive on channel {ci} ended with {e[4:]} instead of EOFError")
            allgot = [x for e in rs for x in e[3]]
            if sorted(map(repr, allgot)) != sorted(map(repr, want[ci])):
                return V("delivery", f"channel {ci}: delivered {allgot}, completely arrived frames {want[ci]} (partial tail of {len(rest)} bytes)")
            for e in rs:
                idx = [want[ci].index(x) for x in e[3]]
                if idx != sorted(idx):
                    return V("order", f"channel {ci} receiver {e[2]} got items out of order")
        for e in obs:
            if e[0] == "sender" and e[1] not in ("done", "OSError"):
                return V("wrong-exception", f"send on the survivor raised {e[1]} (expected OSError or success)")
            if e[0] == "recv2":
                return V("receive-after-eof", f"{e}")
        for ci, n in P["waiters"].items():
            ci = int(ci)
            ws = [e for e in obs if e[0] == "waitclose" and e[1] == ci]
            if len(ws) != n:
                return V("hang", f"waitclose callers of channel {ci} did not all return")
            for e in ws:
                if ci in closed_clean:
                    if e[3] not in ("returned", "EOFError"):
                        return V("wrong-exception", f"waitclose on cleanly closed channel {ci}: {e[3]}")
                elif e[3] != "EOFError":
                    return V("waitclose-not-eof", f"waitclose on channel {ci} (not closed before the cut) ended with {e[3]!r}, expected EOFError")
        if P.get("callback") is not None and not P.get("cb_raises_item"):
            ci = P["callback"]
            calls = S.ctx.get("cbfinal", [])
            items = [c for c in calls if c != END]
            if list(map(repr, items)) != list(map(repr, want[ci])):
                return V("delivery", f"callback channel {ci}: got {items}, completely arrived {want[ci]}")
            if calls.count(END) != 1 or calls[-1] != END:
                return V("endmarker", f"callback channel {ci}: endmarker calls {calls.count(END)}, sequence {calls}")
        if P.get("inflight"):
            inf = [e for e in obs if e[0] == "inflight"]
            if not inf or inf[0][1] != "EOFError":
                return V("wrong-exception", f"receive on the in-flight remote_exec channel: {inf}")
        for e in obs:
            if e[0] == "probe":
                if e[4] == "handed-out" and e[5] != "EOFError":
                    return V("new-channel-hangs", f"{e[3]}() called right after the loss was observed on channel {e[1]} handed out a channel whose receive ended with {e[5]} (it is never closed)")
                if e[4] == "handed-out" and e[1] not in closed_clean:
                    return V("not-refused-after-loss-observed", f"{e[3]}() succeeded although channel {e[1]} had already reported the connection loss (EOFError)")
                if e[4] not in ("OSError", "handed-out"):
                    return V("wrong-exception", f"{e[3]}() after connection loss raised {e[4]}")
        aft = [e for e in obs if e[0] == "after"]
        if not aft:
            return V("hang", "post-cut probes did not run")
        res, hasrecv = aft[0][1], aft[0][2]
        if hasrecv:
            return V("still-receiving", "gateway still reports a receiver after the connection was lost")
        for name, r in res:
            if r != "OSError":
                return V("after-not-oserror", f"{name} after connection loss: {r} (expected OSError)")
        return None, outcome


def down_pipe(S):
    """the lowest-level pipe that carries worker -> initiator bytes"""
    wp = S.worker_proc()
    if S.transport in ("popen", "via"):
        return wp.pout
    # socket: the server-side socket of the gw0 connection lives in the master's process
    for fd in wp.fds:
        if hasattr(fd, "tx") and fd.tx is not None and fd.tx.name.endswith(".s2c"):
            return fd.tx
    raise RuntimeError("no socket pipe found")


SCENARIOS = {"cut": CutScn}
REF: dict = {}


def boundary_offsets(stream: bytes) -> list[int]:
    """offsets around every frame boundary and inside every header, plus one inside each payload"""
    ks = set()
    pos = 0
    frames, _ = parse_frames(stream)
    for _code, _cid, payload in frames:
        end = pos + 9 + len(payload)
        for k in (pos, pos + 1, pos + 4, pos + 5, pos + 8, pos + 9, pos + 10, pos + 9 + len(payload) // 2, end - 1, end):
            if pos <= k <= end:
                ks.add(k)
        pos = end
    return sorted(ks)

BASES = [
    # A: one exec channel, three sizes, blocked receiver + waitclose caller, clean end
    {"items": [(0, 0), (0, 5), (0, 300)], "extra": 0, "closes": [], "block": False, "receivers": {0: 1}, "waiters": {0: 1}, "callback": None, "inflight": False},
    # B: two channels interleaved, two receivers on one, callback with endmarker on the other, worker stays alive
    {"items": [(0, 5), (1, 5), (0, 0), (1, 40)], "extra": 1, "closes": [1], "block": True, "receivers": {0: 2}, "waiters": {0: 1, 1: 1}, "callback": 1, "inflight": False},
    # D: the survivor keeps sending small items while the peer dies (a send fails before the receiver thread sees EOF)
    {"items": [(0, 5), (1, 5)], "extra": 1, "closes": [], "block": True, "receivers": {1: 1}, "waiters": {0: 1}, "callback": None, "inflight": False, "sender": 0},
    # E: a callback that FAILS on its endmarker sits on the channel with the lowest id; a receiver and a
    # waitclose caller are blocked on a later channel
    {"items": [(0, 5), (1, 5)], "extra": 1, "closes": [], "block": True, "receivers": {1: 1}, "waiters": {1: 1}, "callback": 0, "inflight": False, "cb_raises_end": True},
    # F: the callback channel's handle was dropped before the loss (only the registered callback is left)
    {"items": [(0, 5), (1, 5), (1, 0)], "extra": 1, "closes": [], "block": True, "receivers": {0: 1}, "waiters": {0: 1}, "callback": 1, "inflight": False, "cb_dropped": True},
    # G: a callback that FAILS on its first item (reporting that to a peer that may be dead already) sits next
    # to a channel with a blocked receiver and waitclose caller whose items arrive afterwards
    {"items": [(0, 5), (1, 5), (1, 40)], "extra": 1, "closes": [], "block": True, "receivers": {1: 1}, "waiters": {1: 1}, "callback": 0, "inflight": False, "cb_raises_item": True},
    # C: nothing but an in-flight remote_exec and idle channels, two waitclose callers
    {"items": [(1, 5)], "extra": 1, "closes": [], "block": True, "receivers": {1: 1}, "waiters": {0: 2}, "callback": None, "inflight": True},
]


def stmt_pred(m, q, l):
    return m == "gateway_base" and (q.startswith("ChannelFactory.") or q.startswith("BaseGateway._thread_receiver") or q.startswith("Channel.receive") or q.startswith("Channel.waitclose") or q.startswith("Message.from_io"))


def run(tier: str, only=None) -> int:
    rep = evidence.Report(PID, tier, "model_checking")
    rep.rule.append("every byte offset of the worker->initiator stream as the cut point (worker process dies there) x survivor schedules within bounds x IO class; expectation recomputed per execution from the bytes written before the cut")
    rep.assumptions += ["a cut delivers exactly k bytes then EOF (pipes) / EOF (sockets); the dying process closes all its descriptors at that instant", "virtual primitives / discrete time as in DESIGN 7"]
    cap = 600000 if tier == "quick" else 8000000
    stmt = harness.stmt_mask(stmt_pred)
    transports = ("popen", "socket", "via")
    for bi, base in enumerate(BASES):
        for tr in transports:
            name = f"cut/{'ABDEFGC'[bi]}:{tr}"
            if only and only not in name:
                continue
            # quick: bases D..C on popen only -- except D (the survivor keeps sending) on via, where a failing
            # write of the forwarder reaches the survivor as an error on the proxy channel
            if tier == "quick" and tr != "popen" and bi >= 2 and not (bi == 2 and tr == "via"):
                continue
            P = dict(base, transport=tr, N=None)
            ref = explorer.run_once(CutScn.scenario, CutScn.oracle, P, [])
            N = ref.outcome[1]
            if N <= 0:
                rep.internal.append(f"{name}: reference run produced no stream")
                continue
            bks = boundary_offsets(REF["stream"])
            P = dict(base, transport=tr, N=N)
            rep.sample({"sub": name, "stream_bytes": N, "boundary_offsets": bks, "params": {k: v for k, v in P.items()}})
            desc = {"stream_bytes": N, "cut_points": N + 1, **{k: str(v) for k, v in base.items()}}
            # (1) every byte offset, default survivor schedule (+ all picks at blocking points up to the bound)
            b_all = {"cut": 1, "ps": 0, "free": 1} if tier == "quick" or tr != "popen" else {"cut": 1, "ps": 1, "free": 1}
            harness.run_exploration(rep, PID, name + "/all-offsets", CutScn, P, b_all, max_execs=cap, params_desc=desc)
            rep.cov["parts"][name + "/all-offsets"]["cut_points_covered"] = N + 1
            # (2) offsets at frame boundaries / inside headers / inside payloads, crossed with preemptions
            Pb = dict(P, ks=bks)
            if tier == "quick":
                b_bd = {"cut": 1, "ps": 1, "free": 1} if tr == "popen" or bi == 2 else {"cut": 1, "ps": 1, "free": 0}
            else:
                # thorough: every base on every transport (quick: bases D..C on popen only), popen one step deeper
                b_bd = {"cut": 1, "ps": 2, "free": 1} if tr == "popen" and bi in (0, 3) else {"cut": 1, "ps": 1, "free": 1}
            harness.run_exploration(rep, PID, name + "/boundary", CutScn, Pb, b_bd, max_execs=cap, params_desc={"offsets": len(bks)})
            if tr == "socket":
                # a killed TCP peer may produce ECONNRESET instead of a clean EOF
                harness.run_exploration(rep, PID, name + "/boundary-rst", CutScn, dict(Pb, rst=True), {"cut": 1, "ps": 0, "free": 1}, max_execs=cap, params_desc={"offsets": len(bks), "rst": True})
            if tr == "popen" and (tier == "thorough" or bi == 0):
                harness.run_exploration(rep, PID, name + "/boundary-stmt", CutScn, Pb, {"cut": 1, "ps": 0, "pl": 1, "free": 0}, stmt=stmt, max_execs=cap)
    # read chunking crossed with cuts (popen, base A)
    if not only or "chunk" in only:
        P = dict(BASES[0], transport="popen", N=None)
        N = explorer.run_once(CutScn.scenario, CutScn.oracle, P, []).outcome[1]
        P = dict(BASES[0], transport="popen", N=N, short_reads=True)
        harness.run_exploration(rep, PID, "cut/A:popen/chunking", CutScn, P, {"cut": 1, "env": 1, "ps": 0, "free": 0}, max_execs=cap)
    return rep.finish()


def replay(path: str) -> int:
    return harness.replay_file(path, SCENARIOS, stmt_for=lambda d: harness.stmt_mask(stmt_pred))
