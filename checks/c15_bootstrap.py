"""C15 -- bootstrapping needs nothing installed on the other side.

Decided by two exhaustive enumerations: (1) static, complete over the shipped source
text: every import and every global-scope name load; (2) dynamic, complete over the
bootstrap paths x bare interpreters x exec models present in this sandbox.
"""

from __future__ import annotations

import ast
import builtins
import inspect
import json
import os
import subprocess
import symtable
import sys

from engine import evidence
from engine.parallel import pmap

PID = "C15"

INJECTED = {"clientsock", "execmodel", "socket", "channel", "address", "__name__", "__file__", "__builtins__", "__doc__"}


def unit_report(name: str, source: str, extra_bound=()):
    """all imports and all unresolved global loads of one shipped unit"""
    problems = []
    tree = ast.parse(source)
    imports = []
    guarded = set()

    class V(ast.NodeVisitor):
        def __init__(self):
            self.guard = []

        def visit_If(self, node):
            test = ast.unparse(node.test)
            g = None
            if "TYPE_CHECKING" in test:
                g = "type-checking"
            elif "__name__" in test and "__main__" in test:
                g = "main-only"
            if g:
                self.guard.append(g)
                for n in node.body:
                    self.visit(n)
                self.guard.pop()
                for n in node.orelse:
                    self.visit(n)
            else:
                self.generic_visit(node)

        def visit_Try(self, node):
            catches_import = any(h.type is not None and "ImportError" in ast.unparse(h.type) for h in node.handlers)
            if catches_import:
                self.guard.append("try-importerror")
                for n in node.body:
                    self.visit(n)
                self.guard.pop()
                for h in node.handlers:
                    self.visit(h)
                for n in node.orelse + node.finalbody:
                    self.visit(n)
            else:
                self.generic_visit(node)

        def visit_FunctionDef(self, node):
            self.guard.append("lazy-in-function")
            self.generic_visit(node)
            self.guard.pop()

        def visit_Import(self, node):
            for a in node.names:
                imports.append((a.name, node.lineno, list(self.guard)))

        def visit_ImportFrom(self, node):
            mod = ("." * node.level) + (node.module or "")
            imports.append((mod, node.lineno, list(self.guard)))

    V().visit(tree)
    for node in ast.walk(tree):
        if isinstance(node, ast.Try) and any(h.type is not None and "ImportError" in ast.unparse(h.type) for h in node.handlers):
            def bound(stmts):
                out = set()
                for st in stmts:
                    for n in ast.walk(st):
                        if isinstance(n, (ast.Import, ast.ImportFrom)):
                            out |= {(a.asname or a.name).split(".")[0] for a in n.names}
                        elif isinstance(n, ast.Name) and isinstance(n.ctx, ast.Store):
                            out.add(n.id)
                return out
            tb = bound(node.body)
            for h in node.handlers:
                if h.type is not None and "ImportError" in ast.unparse(h.type):
                    missing = tb - bound(h.body)
                    used = {n.id for n in ast.walk(tree) if isinstance(n, ast.Name) and isinstance(n.ctx, ast.Load)}
                    for name_ in sorted(missing & used):
                        problems.append(f"{name}:{node.lineno}: name {name_!r} is bound only when the guarded import succeeds (no fallback binding) but is used")
    std = sys.stdlib_module_names
    for mod, lineno, guard in imports:
        top = mod.split(".")[0]
        if mod.startswith(".") or top == "execnet" or top not in std and top != "__future__" and top != "__main__":
            if "type-checking" in guard or "main-only" in guard:
                continue
            if "try-importerror" in guard:
                continue  # has a fallback (checked dynamically)
            if top in ("eventlet", "gevent") and "lazy-in-function" in guard:
                continue  # optional exec models import their library lazily, only when selected
            problems.append(f"{name}:{lineno}: import of {mod!r} is neither standard library nor guarded")
        elif top in ("eventlet", "gevent"):
            pass
    # global name loads
    st = symtable.symtable(source, name, "exec")
    top_bound = {s.get_name() for s in st.get_symbols() if s.is_assigned() or s.is_imported() or s.is_namespace()}
    nloads = 0

    def walk(table):
        nonlocal nloads
        for s in table.get_symbols():
            if table is st:
                used = s.is_referenced() and not (s.is_assigned() or s.is_imported() or s.is_namespace())
            else:
                used = s.is_global() and s.is_referenced()
            if used:
                nloads += 1
                n = s.get_name()
                if n not in top_bound and n not in builtins.__dict__ and n not in INJECTED and n not in extra_bound:
                    problems.append(f"{name}: global name {n!r} (scope {table.get_name()}) is not bound in the shipped unit")
        for c in table.get_children():
            walk(c)

    walk(st)
    return len(imports), nloads, problems


def static_part(rep):
    import execnet.gateway_base as gb
    import execnet.gateway_bootstrap as bootstrap
    import execnet.gateway_io as gio
    import execnet.rsync_remote as rr
    from execnet.gateway_socket import SocketIO
    from execnet.script import socketserver

    src_base = inspect.getsource(gb)
    units = [
        ("gateway_base (shipped by bootstrap_exec / bootstrap_socket)", src_base, ()),
        ("gateway_base + 'import socket' + SocketIO + trailer (bootstrap_socket)", src_base + "\nimport socket\n" + inspect.getsource(SocketIO) + "\nio = SocketIO(clientsock, execmodel)\nserve(io, id='x')\n", ()),
        ("gateway_io (shipped to the via gateway)", inspect.getsource(gio), ()),
        ("rsync_remote (shipped to rsync targets)", inspect.getsource(rr), ()),
        ("script/socketserver (shipped by start_via)", inspect.getsource(socketserver), ("exec_",)),
    ]
    ni = nl = 0
    for name, src, extra in units:
        a, b, problems = unit_report(name, src, extra)
        ni += a
        nl += b
        for p in problems:
            rep.violation("c15:static:" + p.split(":")[-1].strip()[:60], p, {"check": PID, "sub": "static", "unit": name})
    # the trailer lines of the bootstrap functions refer only to names of the shipped source
    bsrc = inspect.getsource(bootstrap)
    for needed in ("get_execmodel", "init_popen_io", "serve"):
        if needed not in src_base:
            rep.violation("c15:static:trailer", f"bootstrap trailer uses {needed} which gateway_base does not define", {"check": PID, "sub": "static"})
    if "from execnet" in "\n".join(l for l in bsrc.splitlines() if "sendexec" not in l and l.strip().startswith('"')) and False:
        pass
    rep.add_enumeration("static-imports-and-global-loads", ni + nl, ni + nl, {"imports": ni, "global_name_loads": nl, "units": len(units)})
    rep.sample({"units": [u[0] for u in units]})


CELL = r'''
import sys, json, os
sys.path.insert(0, "/repo/src")
import execnet
assert execnet.__file__.startswith("/repo/src")
path, py, model = sys.argv[1], sys.argv[2], sys.argv[3]
g = execnet.Group()
if path == "import":
    gw = g.makegateway("popen//execmodel=%s" % model)
elif path == "exec":
    gw = g.makegateway("popen//python=%s//execmodel=%s" % (py, model))
elif path == "via":
    g.makegateway("popen//python=%s//id=m" % py)
    gw = g.makegateway("popen//via=m//python=%s//execmodel=%s" % (py, model))
elif path == "via-nopy":
    # no python= on the proxied gateway: the forwarder starts its own interpreter, which has no execnet
    g.makegateway("popen//python=%s//id=m" % py)
    gw = g.makegateway("popen//via=m//execmodel=%s" % model)
elif path == "socket":
    g.makegateway("popen//python=%s//id=m//execmodel=%s" % (py, model))
    gw = g.makegateway("socket//installvia=m")
T = []
def run(src, *sends):
    ch = gw.remote_exec(src)
    for s in sends:
        ch.send(s)
    out = []
    try:
        while True:
            out.append(ch.receive(30))
    except EOFError:
        pass
    except ch.RemoteError as e:
        out.append("RemoteError:" + str(e).strip().splitlines()[-1])
    T.append(out)
bare = path != "import"
run("""
try:
    import execnet
    channel.send("execnet importable")
except ImportError:
    channel.send("no execnet")
import sys
channel.send(sys.version_info[:2] >= (3, 8))
""")
run("for i in range(3):\n    channel.send((i, channel.receive()))", "a", b"\x00\xff" * 40000, [1, (2,), {"k": {3}}])
ch = gw.remote_exec("c = channel.receive()\nc.send(c.receive() * 2)\nc.close()")
c = gw.newchannel(); ch.send(c); c.send(21); T.append([c.receive(30)]); ch.waitclose(30)
run("raise KeyError('k')")
run("import threading\nchannel.send(channel.gateway.execmodel.backend)\nchannel.send(threading.current_thread() is threading.main_thread() if channel.gateway.execmodel.backend == 'main_thread_only' else None)")
st = gw.remote_status()
T.append([st.numchannels <= 1, st.execmodel])  # the worker forgets a finished channel just after it told us
if bare and T[0][0] != "no execnet":
    T.insert(0, "NOT-BARE")
# the same spec STRING used again in this process: by a group with another remote exec model, and twice
# by one group -- every worker gets the exec model and the id of ITS gateway
spec2 = "popen" if path == "import" else "popen//python=%s" % py
other = "main_thread_only" if model == "thread" else "thread"
ga = execnet.Group(); ga.set_execmodel("thread", other)
gb_ = execnet.Group(); gb_.set_execmodel("thread", model)
ws = [ga.makegateway(spec2), gb_.makegateway(spec2), gb_.makegateway(spec2)]
q = "channel.send((channel.gateway.id, channel.gateway.execmodel.backend))"
T.append(["reuse", [list(x.remote_exec(q).receive(30)) for x in ws], [x.id for x in ws]])
ga.terminate(2); gb_.terminate(2)
# the kill path: a worker that ignores interrupts must still go away with terminate(timeout)
import time, signal
ch = gw.remote_exec("import os, signal, time\nsignal.signal(signal.SIGINT, signal.SIG_IGN) if os.getpid() and __import__('threading').current_thread() is __import__('threading').main_thread() else None\nchannel.send(os.getpid())\nwhile True:\n    try:\n        time.sleep(0.2)\n    except KeyboardInterrupt:\n        pass")
wpid = ch.receive(30)
t0 = time.time()
try:
    g.terminate(1.0)
    term = "ok"
except BaseException as e:
    term = "%s: %s" % (type(e).__name__, str(e).strip().splitlines()[-1][:100])
dt = time.time() - t0
time.sleep(0.3)
def alive(p):
    try:
        return open("/proc/%d/stat" % p).read().split()[2] != "Z"
    except OSError:
        return False
stuck = alive(wpid)
if stuck:
    try: os.kill(wpid, signal.SIGKILL)
    except OSError: pass
T.append(["terminate", term, dt < 12, "worker-gone" if not stuck else "WORKER-LEFT-BEHIND"])
print(json.dumps(T, default=repr))
'''


# worker locale / IO encoding: the shipped source travels through the worker's text-mode stdin
ENVS = {
    "default": {},
    "io-ascii": {"PYTHONIOENCODING": "ascii"},
    "io-latin1": {"PYTHONIOENCODING": "latin-1"},
    "c-locale": {"LC_ALL": "C", "LANG": "C", "PYTHONCOERCECLOCALE": "0", "PYTHONUTF8": "0"},
}


class VirtualBootScn:
    """the source-shipping bootstrap over a (virtual) pipe of ordinary capacity: the ~66 KB program
    line must arrive whole whatever the stream layer under the gateway does with large writes"""

    @staticmethod
    def scenario(w, P):
        from .common import Session

        S = Session(w, "popen", "thread")

        def main():
            from execnet.multi import Group

            S.group = g = Group(execmodel=S.proc.execmodel)
            try:
                if P["path"] == "exec":
                    gw = g.makegateway("popen//python=python3//id=gw0")
                else:
                    g.makegateway("popen//id=m")
                    gw = g.makegateway("popen//via=m//python=python3//id=gw0")
                ch = gw.remote_exec("channel.send(channel.receive() + 1)")
                ch.send(41)
                S.ctx["echo"] = ch.receive(timeout=20)
            except BaseException as e:  # noqa: BLE001
                S.ctx["exc"] = f"{type(e).__name__}: {str(e)[:200]}"
            S.ctx["done"] = True
            g.terminate(timeout=2.0)

        S.main(main)
        return S

    @staticmethod
    def oracle(w, S, P):
        if S.ctx.get("echo") != 42:
            return ("c15:virtual-bootstrap", f"source-bootstrapped worker ({P['path']}) did not come up / echo: {S.ctx.get('echo')!r} {S.ctx.get('exc')} blocked={w.blocked_at_end} stderr={w.stderr.getvalue()[-300:]}"), 0
        return None, 1


def cell(c):
    path, py, model = c[:3]
    env = dict(os.environ)
    env["PYTHONPATH"] = "/repo/src"
    env.update(ENVS[c[3] if len(c) > 3 else "default"])
    if (len(c) > 3 and path != "import") or path == "via-nopy":
        # these workers run without -E (so that the encoding settings reach them): keep them bare
        env.pop("PYTHONPATH", None)
    try:
        r = subprocess.run([sys.executable, "-c", CELL, path, py, model], capture_output=True, text=True, timeout=180, env=env, stdin=subprocess.DEVNULL, cwd="/tmp")
        out = r.stdout.strip().splitlines()[-1] if r.stdout.strip() else f"NO-OUTPUT rc={r.returncode} {r.stderr[-400:]}"
    except subprocess.TimeoutExpired:
        out = "TIMEOUT"
    return c, out


def run(tier: str, only=None) -> int:
    rep = evidence.Report(PID, tier, "exploration")
    rep.rule.append("(1) every import statement and every global-scope name load of every shipped unit (gateway_base, gateway_base+SocketIO+trailer, gateway_io, rsync_remote, socketserver) resolved with symtable; (2) bootstrap path {import, exec over pipe, exec via proxy on a bare via-gateway, socket server on a bare via-gateway} x bare interpreter {3.12 -S -E, 3.11 -S -E -s, 3.12 -I} x exec model {thread, main_thread_only}, 7 channel programs each; transcripts must equal the import-bootstrapped popen transcript")
    static_part(rep)
    interps = [f"{sys.executable} -S -E", "/usr/bin/python3.11 -S -E -s"]
    if tier == "thorough":
        interps.append(f"{sys.executable} -I -S")
    interps = [i for i in interps if os.path.exists(i.split()[0])]
    cells = [("import", "-", m) for m in ("thread", "main_thread_only")]
    for path in ("exec", "via", "socket"):
        for py in interps:
            for m in ("thread", "main_thread_only"):
                if tier == "quick" and "3.11" in py and m == "main_thread_only" and path != "exec":
                    continue
                cells.append((path, py, m))
    if os.path.exists("/usr/bin/python3.11"):
        for m in ("thread", "main_thread_only"):
            cells.append(("via-nopy", "/usr/bin/python3.11 -S -E -s", m))
    for envname in ("io-ascii", "io-latin1", "c-locale"):
        for m in ("thread",) if tier == "quick" else ("thread", "main_thread_only"):
            cells.append(("import", "-", m, envname))
            for path in ("exec", "via") if tier == "quick" else ("exec", "via", "socket"):
                for py in interps[:1] if tier == "quick" else interps[:2]:
                    cells.append((path, py.replace(" -E", ""), m, envname))
    from engine import explorer

    for vpath in ("exec", "via"):
        r = explorer.run_once(VirtualBootScn.scenario, VirtualBootScn.oracle, {"path": vpath}, [], horizon=2000000)
        if r.violation is not None:
            rep.violation(r.violation[0], r.violation[1], {"check": PID, "sub": "virtual-boot", "path": vpath})
    rep.add_enumeration("virtual-pipe-bootstrap", 2, 2)
    res = pmap(lambda chunk: [cell(c) for c in chunk], [cells[i::16] for i in range(16)])
    flat = {c: o for chunk in res for c, o in chunk}

    def norm(o, model):
        try:
            T = json.loads(o)
        except ValueError:
            return o
        return json.dumps(T)

    for c, o in sorted(flat.items()):
        ref = flat.get(("import", "-", c[2]) + tuple(c[3:]))
        a, b = norm(o, c[2]), norm(ref, c[2])
        try:
            ta, tb = json.loads(a), json.loads(b)
            # cell 0 differs by design (import bootstrap can import execnet); compare the rest
            same = ta[1:] == tb[1:] and (c[0] == "import" or ta[0][0] == "no execnet")
        except (ValueError, TypeError, IndexError):
            same = False
        if not same:
            again = cell(c)[1]
            try:
                same2 = json.loads(again)[1:] == json.loads(b)[1:] and json.loads(again)[0][0] == "no execnet"
            except (ValueError, TypeError, IndexError):
                same2 = False
            if not same2:
                rep.violation(f"c15:bootstrap-{c[0]}", f"cell {c}: transcript {o[:400]}\n  expected (import bootstrap) {ref[:400] if ref else ref}", {"check": PID, "sub": "dynamic", "cell": list(c)})
    rep.add_enumeration("bootstrap-cells", len(cells) * 7, len(cells), {"cells": len(cells), "interpreters": interps})
    rep.sample({"cell": list(cells[3])})
    rep.assumptions += ["ssh / vagrant_ssh transports, Python 3.10/3.13 and eventlet are not available in this sandbox and are not covered", "interpreter start-up and fd redirection are real here; no scheduling is controlled (a deviating cell is re-run once)"]
    return rep.finish()


def replay(path: str) -> int:
    print(json.load(open(path)))
    return 1
