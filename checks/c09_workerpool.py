"""C09 -- WorkerPool runs every accepted task exactly once and reports truthfully.

Direct harness over the real ``WorkerPool`` on a virtual exec model, plus the
end-to-end form (remote_exec immediately followed by Group.terminate).
"""

from __future__ import annotations

from engine import evidence
from engine import harness
from engine.vworld import VEvent

PID = "C09"


class MyErr(Exception):
    pass


class MyBaseErr(BaseException):
    """a task may end with any BaseException (SystemExit, KeyboardInterrupt, test outcomes ...)"""


# ----------------------------------------------------------------------
# direct pool harness
# ----------------------------------------------------------------------
class PoolScn:
    """params:
    primary: bool, backend: str,
    spawners: list of list of body kinds  ("ret" | "raise" | "gate")
    shutdown: bool   -- a thread calls trigger_shutdown
    waiters: list of timeouts (None | float) for waitall callers
    getters: "none" | "get" | "timed"
    term: bool -- shutdown thread uses terminate(timeout=None) instead of trigger_shutdown
    late_spawn: bool -- shutdown thread spawns after trigger_shutdown returned
    """

    @staticmethod
    def scenario(w, P):
        from execnet.gateway_base import WorkerPool

        proc = w.new_proc("p", P["backend"])
        em = proc.execmodel
        if P.get("start_faults"):
            w.opts["start_faults"] = True
        ctx = {"clock": 0, "ev": [], "runs": {}, "excs": {}}

        def tick(*ev):
            ctx["clock"] += 1
            ctx["ev"].append((ctx["clock"],) + ev)
            return ctx["clock"]

        gates = {}
        proto = P["backend"] == "main_thread_only" and P["primary"]

        def setup_and_run():
            pool = WorkerPool(em, hasprimary=P["primary"])
            ctx["pool"] = pool
            done_evt = VEvent(w)
            done_evt.flag = True
            submit_lock = em.Lock()  # the gateway submits from one receiver thread

            def body(tid, kind):
                tick("body-start", tid, em.get_ident())
                ctx["runs"][tid] = ctx["runs"].get(tid, 0) + 1
                try:
                    if kind == "gate":
                        gates[tid].wait()
                    if kind in ("raise", "baseexc", "sysexit"):
                        e = {"raise": MyErr, "baseexc": MyBaseErr, "sysexit": SystemExit}[kind](tid)
                        ctx["excs"][tid] = e
                        raise e
                    return ("val", tid)
                finally:
                    tick("body-end", tid)
                    if proto:
                        done_evt.set()

            def spawner(si, kinds):
                for j, kind in enumerate(kinds):
                    tid = f"s{si}.{j}"
                    if kind == "gate":
                        gates[tid] = VEvent(w)
                    if proto:
                        # gateway protocol of main_thread_only: submit the next
                        # task only after the previous function returned
                        submit_lock.acquire()
                        done_evt.wait()
                        done_evt.clear()
                    t0 = tick("spawn-call", tid)
                    try:
                        reply = pool.spawn(body, tid, kind)
                    except ValueError:
                        tick("spawn-refused", tid, t0)
                        if proto:
                            done_evt.set()
                            submit_lock.release()
                        continue
                    except RuntimeError:
                        # the thread for this task could not be started: spawn() did not accept it
                        tick("spawn-failed", tid, t0)
                        if proto:
                            done_evt.set()
                            submit_lock.release()
                        continue
                    tick("spawn-ret", tid, t0)
                    if proto:
                        submit_lock.release()
                    if kind == "gate":
                        # open the gate from here so the task can always finish
                        if P["getters"] == "timed":
                            try:
                                reply.get(timeout=0.5)
                                tick("get-early", tid)
                            except OSError:
                                tick("get-timeout", tid)
                        gates[tid].set()
                    if P["getters"] in ("get", "timed"):
                        try:
                            v = reply.get()
                            tick("get-val", tid, v)
                        except BaseException as e:  # noqa: BLE001
                            if e is ctx["excs"].get(tid):
                                tick("get-exc", tid, True)
                            elif type(e).__name__ in ("Teardown", "ProcExit"):
                                raise
                            else:
                                tick("get-other", tid, type(e).__name__)

            def primary():
                tick("primary-enter")
                pool.integrate_as_primary_thread()
                tick("primary-left")

            def shutdown():
                t0 = tick("shutdown-call")
                if P.get("term"):
                    r = pool.terminate(timeout=None)
                    tick("terminate-ret", r, t0)
                else:
                    pool.trigger_shutdown()
                    tick("shutdown-ret", t0)
                if P.get("late_spawn"):
                    try:
                        pool.spawn(body, "late", "ret")
                        tick("late-accepted")
                    except ValueError:
                        tick("late-refused")

            def waiter(wi, timeout):
                t0 = tick("waitall-call", wi)
                r = pool.waitall(timeout=timeout)
                tick("waitall-ret", wi, r, t0, timeout)

            w.exploring = True
            if P["primary"]:
                w.spawn(primary, proc=proc, name="primary", role="user")
            for si, kinds in enumerate(P["spawners"]):
                w.spawn(spawner, (si, kinds), proc=proc, name=f"spawner{si}", role="user")
            if P["shutdown"]:
                w.spawn(shutdown, proc=proc, name="shutdown", role="user")
            for wi, to in enumerate(P["waiters"]):
                w.spawn(waiter, (wi, to), proc=proc, name=f"waiter{wi}", role="user")

        w.spawn(setup_and_run, proc=proc, name="setup", role="user")
        return ctx

    @staticmethod
    def oracle(w, ctx, P):
        ev = ctx["ev"]
        accepted = {e[2]: e[0] for e in ev if e[1] == "spawn-ret"}
        refused = {e[2]: (e[3], e[0]) for e in ev if e[1] == "spawn-refused"}
        body_start = {}
        body_end = {}
        for e in ev:
            if e[1] == "body-start":
                body_start.setdefault(e[2], []).append(e[0])
            elif e[1] == "body-end":
                body_end.setdefault(e[2], []).append(e[0])
        shut_call = [e[0] for e in ev if e[1] == "shutdown-call"]
        shut_ret = [e[0] for e in ev if e[1] in ("shutdown-ret", "terminate-ret")]
        outcome = (
            len(accepted),
            len(refused),
            tuple(sorted((e[2], e[3]) for e in ev if e[1] == "body-start" and P["primary"] and e[3] == 1)),
            any(e[1] == "get-timeout" for e in ev),
            tuple(e[2] for e in ev if e[1] == "waitall-ret"),
        )
        blocked = [b for b in w.blocked_at_end if b[2] == "user"]

        def V(key, msg):
            return (f"c09:{key}", msg + f"\n  events: {ev}\n  blocked: {w.blocked_at_end}"), outcome

        # every accepted task ran exactly once
        for tid in accepted:
            n = ctx["runs"].get(tid, 0)
            if n == 0:
                return V("accepted-task-never-ran", f"task {tid} was accepted by spawn() but never executed")
            if n > 1:
                return V("task-ran-twice", f"task {tid} executed {n} times")
            if tid not in body_end:
                return V("accepted-task-never-finished", f"task {tid} started but never finished")
        failed = {e[2] for e in ev if e[1] == "spawn-failed"}
        for tid in failed:
            if ctx["runs"].get(tid):
                return V("failed-spawn-ran", f"spawn of {tid} raised (no thread could be started) but the task ran anyway")
        for tid, n in ctx["runs"].items():
            if tid not in accepted and tid != "late" and n:
                # a task may run before spawn() returns, but spawn must then return
                if tid not in refused:
                    return V("spawn-never-returned", f"task {tid} ran but its spawn() call never returned")
                return V("refused-task-ran", f"task {tid} was refused with ValueError but executed anyway")
        # refused only when shutdown had been triggered
        for tid, (t_call, t_ref) in refused.items():
            if not shut_call or shut_call[0] > t_ref:
                return V("refused-without-shutdown", f"spawn of {tid} raised ValueError but shutdown was never triggered before")
        # spawn that starts after trigger_shutdown returned must be refused
        if shut_ret:
            for e in ev:
                if e[1] == "spawn-ret" and e[3] > shut_ret[0]:
                    return V("spawn-after-shutdown-accepted", f"spawn of {e[2]} started after trigger_shutdown returned and was accepted")
            if any(e[1] == "late-accepted" for e in ev):
                return V("spawn-after-shutdown-accepted", "spawn after trigger_shutdown returned was accepted")
        # Reply.get truthfulness
        for e in ev:
            if e[1] == "get-val" and e[3] != ("val", e[2]):
                return V("get-wrong-value", f"Reply.get returned {e[3]!r} for task {e[2]}")
            if e[1] == "get-exc" and not e[3]:
                return V("get-wrong-exception", f"Reply.get re-raised a different exception object for {e[2]}")
            if e[1] == "get-other":
                return V("get-wrong-exception", f"Reply.get raised {e[3]} for {e[2]}")
            if e[1] == "get-early":
                return V("get-returned-before-finish", f"Reply.get(timeout) returned while task {e[2]} was gated")
        # waitall / terminate returning True: some instant in the call interval with nothing accepted-and-unfinished
        for e in ev:
            if (e[1] == "waitall-ret" and e[3] is True) or (e[1] == "terminate-ret" and e[2] is True):
                s, t_end = (e[4], e[0]) if e[1] == "waitall-ret" else (e[3], e[0])
                pend = []
                for tid, t_acc in accepted.items():
                    be = body_end.get(tid, [10**9])[0]
                    pend.append((t_acc, be, tid))
                ok = False
                cands = [s] + [x for iv in pend for x in (iv[0], iv[1]) if s <= x <= t_end] + [t_end]
                for c in cands:
                    for inst in (c - 0.5, c + 0.5):
                        if s < inst < t_end and not any(a < inst < b for a, b, _ in pend):
                            ok = True
                if not ok and t_end - s > 0:
                    return V("waitall-true-while-unfinished", f"{e[1]} returned True although an accepted task was unfinished during the whole call [{s},{t_end}]: {pend}")
            if e[1] == "waitall-ret" and e[3] is False and e[5] is None:
                return V("waitall-false-without-timeout", "waitall(None) returned False")
        # nothing blocked forever
        if not w.was_quiescent and not w.capped:
            pass
        if blocked:
            names = [b[0] for b in blocked]
            if any(n.startswith("waiter") for n in names) and all(t in body_end for t in accepted):
                return V("waitall-lost-wakeup", f"waitall caller blocked forever although every accepted task finished: {blocked}")
            if "primary" in names and shut_ret:
                return V("primary-never-left", f"primary thread still inside integrate_as_primary_thread after shutdown: {blocked}")
            if not ("primary" in names and not P["shutdown"] and len(names) == 1):
                return V("hang", f"user threads blocked forever: {blocked}")
        if P["primary"] and shut_ret and not any(e[1] == "primary-left" for e in ev):
            return V("primary-never-left", "primary thread did not leave integrate_as_primary_thread after shutdown")
        return None, outcome


# ----------------------------------------------------------------------
# end-to-end: remote_exec directly followed by terminate
# ----------------------------------------------------------------------
class E2EScn:
    @staticmethod
    def scenario(w, P):
        from execnet.multi import Group

        p = w.new_proc("init")
        ctx = {}

        def main():
            g = Group(execmodel=p.execmodel)
            gw = g.makegateway("popen//execmodel=%s" % P["backend"])
            w.exploring = True
            ch = gw.remote_exec("channel.gateway._vp_ran = True")
            t0 = w.now
            g.terminate(timeout=10.0)
            ctx["elapsed"] = w.now - t0
            ctx["done"] = True

        w.spawn(main, proc=p, name="main", role="user", is_main=True)
        return ctx

    @staticmethod
    def oracle(w, ctx, P):
        child = w.procs[1] if len(w.procs) > 1 else None
        sig = child.sigints if child else 0
        outcome = (ctx.get("elapsed"), sig, child.exit_reason if child else None)
        if not ctx.get("done"):
            return ("c09:e2e-hang", f"terminate never returned; blocked={w.blocked_at_end}"), outcome
        if ctx["elapsed"] >= 1.0 or sig:
            return (
                "c09:e2e-terminate-slow",
                f"remote_exec directly followed by terminate(10): took {ctx['elapsed']} virtual s, worker SIGINTs={sig}, exit={child.exit_reason}",
            ), outcome
        return None, outcome


SCENARIOS = {"pool": PoolScn, "e2e": E2EScn}


def pool_configs(tier):
    cfgs = []
    for primary in (False, True):
        for backend in ("thread", "main_thread_only", "gevent"):
            if backend == "gevent" and primary:
                continue  # hasprimary requires a thread model
            base = {"primary": primary, "backend": backend, "getters": "none", "waiters": [], "shutdown": False}
            # A) one spawner racing with shutdown, result fetched
            cfgs.append(dict(base, spawners=[["ret"]], shutdown=True, getters="get"))
            # B) one spawner, two tasks, shutdown + waitall(None)
            cfgs.append(dict(base, spawners=[["raise", "ret"]], shutdown=True, waiters=[None]))
            # C) gated task, timed get, terminate()
            cfgs.append(dict(base, spawners=[["gate"]], shutdown=True, term=True, getters="timed"))
            # D) spawn after shutdown returned + waitall
            cfgs.append(dict(base, spawners=[["ret"]], shutdown=True, late_spawn=True, waiters=[None]))
            # E) no shutdown: two spawners, one waiter (lost wake-up, accounting)
            cfgs.append(dict(base, spawners=[["ret"], ["raise"]], waiters=[None], getters="get"))
            # F) gated task with a timed waitall
            cfgs.append(dict(base, spawners=[["gate"]], waiters=[0.25]))
            # G) tasks ending with BaseException subclasses, then another task, waitall
            cfgs.append(dict(base, spawners=[["baseexc", "ret"]], waiters=[None], getters="get"))
            cfgs.append(dict(base, spawners=[["sysexit"], ["ret"]], shutdown=True, getters="get"))
            if tier == "thorough":
                cfgs.append(dict(base, spawners=[["ret"], ["raise"]], shutdown=True, getters="get"))
                cfgs.append(dict(base, spawners=[["ret"], ["gate"]], waiters=[None, None], getters="get"))
                cfgs.append(dict(base, spawners=[["ret", "raise"], ["gate", "ret"]], shutdown=True, term=True, getters="timed"))
    return cfgs


def run(tier: str, only=None) -> int:
    rep = evidence.Report(PID, tier, "model_checking")
    rep.rule.append(
        "all interleavings of the real WorkerPool under the virtual scheduler within the preemption bounds; "
        "non-trivial = execution with at least one non-default scheduling choice, distinct by choice sequence"
    )
    rep.assumptions += [
        "virtual Lock/Event/Queue implement threading.RLock/Event and queue.Queue semantics (selftest)",
        "discrete-event time: computation is instantaneous relative to time-outs",
        "statement-level preemption granularity is a source statement, not a bytecode",
    ]
    stmt = harness.stmt_mask(lambda m, q, l: m == "gateway_base" and (q.startswith("WorkerPool.") or q.startswith("Reply.")))
    if tier == "quick":
        b_sync = {"ps": 2, "free": 2}
        b_stmt = {"ps": 0, "pl": 1, "free": 2}
        cap = 400000
    else:
        b_sync = {"ps": 2, "free": 3}
        b_stmt = {"ps": 0, "pl": 2, "free": 1}
        cap = 4000000
    cfgs = pool_configs(tier)
    for i, P in enumerate(cfgs):
        name = f"pool/{i}:{'P' if P['primary'] else 'N'}:{P['backend']}"
        if only and only not in name:
            continue
        rep.sample({"sub": name, "params": P})
        big = sum(len(s) for s in P["spawners"]) >= 3 or (len(P["spawners"]) >= 2 and P.get("shutdown"))
        bs, bt = ({"ps": 2, "free": 2}, {"ps": 0, "pl": 1, "free": 2}) if big and tier != "quick" else (b_sync, b_stmt)
        harness.run_exploration(rep, PID, name + "/sync", PoolScn, P, bs, max_execs=cap)
        harness.run_exploration(rep, PID, name + "/stmt", PoolScn, P, bt, stmt=stmt, max_execs=cap)
    # environment fault: the interpreter refuses to start a thread for a task (one fault per execution)
    for primary in (False, True):
        for backend in ("thread", "main_thread_only"):
            base = {"primary": primary, "backend": backend, "getters": "get", "start_faults": True}
            for j, Pf in enumerate((dict(base, spawners=[["ret", "ret"]], waiters=[None], shutdown=False), dict(base, spawners=[["ret"], ["raise"]], waiters=[None], shutdown=True, term=True))):
                name = f"startfault/{j}:{'P' if primary else 'N'}:{backend}"
                if only and only not in name:
                    continue
                harness.run_exploration(rep, PID, name, PoolScn, Pf, {"ps": 1, "env": 1, "free": 1} if tier == "quick" else {"ps": 2, "env": 1, "free": 2}, max_execs=cap)
    for backend in ("thread", "main_thread_only"):
        name = f"e2e/{backend}"
        if only and only not in name:
            continue
        P = {"backend": backend}
        harness.run_exploration(rep, PID, name, E2EScn, P, {"ps": 2, "free": 1} if tier == "quick" else {"ps": 2, "free": 3}, max_execs=cap)
    return rep.finish()


def replay(path: str) -> int:
    return harness.replay_file(path, SCENARIOS, stmt_for=lambda d: harness.stmt_mask(lambda m, q, l: m == "gateway_base" and (q.startswith("WorkerPool.") or q.startswith("Reply."))))
