"""C03 -- close is ordered after data and observed consistently by both sides."""

from __future__ import annotations

from engine import evidence
from engine import harness

from .common import Session

PID = "C03"

# observer / sender logic as source text so that the very same code runs on the
# initiator (exec'd in a namespace) and inside a remote_exec body
OBSERVER = '''
def _post_close_checks(chan, who):
    # the peer has observed the close (CHANNEL_CLOSE): channel must be closed for good
    try:
        if not chan.isclosed():
            W.observe("peer-not-closed", side, who)
        try:
            chan.send(1)
            W.observe("peer-send-ok", side, who)
        except OSError:
            pass
        chan.waitclose(0)
        if can_close:
            chan.close()
            chan.close()
    except BaseException as e:
        W.observe("peer-post-exc", side, who, type(e).__name__, str(e)[:80])

def receiver(idx):
    got = []
    try:
        while True:
            got.append(chan.receive())
    except EOFError:
        pass
    except BaseException as e:
        W.observe("recv-exc", side, idx, type(e).__name__, str(e)[:80])
        return
    W.observe("recv", side, idx, got)
    for k in range(3):
        try:
            x = chan.receive()
            W.observe("late-item", side, idx, x)
        except EOFError:
            pass
        except BaseException as e:
            W.observe("recv-exc", side, idx, type(e).__name__, str(e)[:80])
    if full_close:
        _post_close_checks(chan, ("r", idx))
    W.observe("rdone", side, idx)

def waiter(idx):
    try:
        chan.waitclose()
    except BaseException as e:
        W.observe("waitclose-exc", side, idx, type(e).__name__, str(e)[:80])
        return
    if drain:
        got = []
        try:
            while True:
                got.append(chan.receive(timeout=0))
        except EOFError:
            W.observe("drained", side, idx, got, "eof")
        except chan.TimeoutError:
            # nothing may appear later: look again when everything has settled
            W.observe("drained", side, idx, got, "timeout")
            em_ = chan.gateway.execmodel
            em_.sleep(1.0)
            try:
                x = chan.receive(timeout=0)
                W.observe("late-item", side, idx, x)
            except (EOFError, chan.TimeoutError):
                pass
        except BaseException as e:
            W.observe("drain-exc", side, idx, type(e).__name__, got)
    if full_close:
        _post_close_checks(chan, ("w", idx))
    W.observe("wdone", side, idx)
'''

WORKER_SENDER = '''
em = channel.gateway.execmodel
W = em.world
spec = {spec!r}
side = "worker"
chan = channel
if spec["kind"] not in ("body-end", "body-eof"):
    chan = channel.receive()
if spec["kind"] == "drop-cb":
    chan.setcallback(lambda x: None)
for i in range(spec["n"]):
    chan.send(("item", i))
if spec.get("busy"):
    # another thread of this process is writing frames of another channel meanwhile
    other = channel.gateway.newchannel()
    busy_done = em.Event()
    def busy():
        try:
            for i in range(2):
                other.send(i)
        finally:
            busy_done.set()
    em.start(busy)
if spec["kind"] == "body-eof":
    raise EOFError("remote code ran into an EOF of its own")
if spec["kind"] == "close":
    chan.close()
    try:
        ok = chan.isclosed()
        try:
            chan.send(1)
            sent = True
        except OSError:
            sent = False
        chan.waitclose(0)
        chan.close()
        W.observe("closer-state", side, ok, sent)
    except BaseException as e:
        W.observe("closer-exc", side, type(e).__name__, str(e)[:80])
elif spec["kind"] in ("drop", "drop-cb"):
    del chan
if spec.get("busy"):
    busy_done.wait()
'''

WORKER_OBSERVER = '''
em = channel.gateway.execmodel
W = em.world
spec = {spec!r}
side = "worker"
chan = channel
full_close = spec["kind"] in ("close", "drop")
drain = spec["r"] == 0
can_close = False  # an explicit close from inside remote_exec is refused by design
''' + OBSERVER + '''
evs = []
def run(fn, idx):
    ev = em.Event()
    evs.append(ev)
    def body():
        try:
            fn(idx)
        finally:
            ev.set()
    em.start(body)
for i in range(spec["r"]):
    run(receiver, i)
for i in range(spec["w"]):
    run(waiter, i)
for ev in evs:
    ev.wait()
W.observe("observer-done", side)
'''


class CloseScn:
    """P: dir ("down": worker sends, initiator observes | "up"), kind, n, r, w, transport, backend"""

    @staticmethod
    def scenario(w, P):
        S = Session(w, P.get("transport", "popen"), P.get("backend", "thread"))

        def main():
            gw = S.open()
            em = S.proc.execmodel
            spec = dict(P)
            if P["dir"] == "down":
                ctl = gw.remote_exec(WORKER_SENDER.format(spec=spec))
                if P["kind"] in ("body-end", "body-eof"):
                    chan = ctl
                else:
                    chan = gw.newchannel()
                ns = {"W": w, "side": "init", "chan": chan, "full_close": P["kind"] in ("close", "drop", "body-end", "body-eof"), "drain": P["r"] == 0, "can_close": True}
                exec(OBSERVER, ns)
                w.exploring = True
                if chan is not ctl:
                    ctl.send(chan)
                for i in range(P["r"]):
                    S.user(ns["receiver"], f"recv{i}", (i,))
                for i in range(P["w"]):
                    S.user(ns["waiter"], f"wait{i}", (i,))
                del chan
                ns.pop("chan") if False else None
                S.join_users()
                w.exploring = False
                try:
                    ctl.waitclose(5)
                except BaseException as e:  # noqa: BLE001
                    w.observe("ctl-exc", type(e).__name__, str(e)[:100])
            else:
                chan = gw.remote_exec(WORKER_OBSERVER.format(spec=spec))
                if P.get("gc"):
                    # a cyclic-garbage channel may be finalized (and send its close frame) at any statement
                    # of the sending path while a large frame of another channel goes out first
                    from engine import instrument

                    side = gw.remote_exec("for x in channel:\n    pass")
                    g_ = gw.newchannel()
                    cyc = [g_]
                    cyc.append(cyc)
                    del g_, cyc
                    w.gc_mask = instrument.select(lambda m, q, l: (m == "gateway_base" and q in ("BaseGateway._send", "Message.to_io", "Channel.send", "Popen2IO.write", "SocketIO.write", "Channel.close")) or (m == "gateway_io" and q.startswith("ProxyIO.write")))
                    w.gc_proc = S.proc
                w.exploring = True
                if P.get("gc"):
                    side.send(b"x" * 70000)
                kind = P["kind"]
                if kind == "drop-cb":
                    chan.setcallback(lambda x: None)
                for i in range(P["n"]):
                    chan.send(("item", i))
                if P.get("busy"):
                    other = gw.newchannel()
                    S.user(lambda: [other.send(i) for i in range(2)], "busy")
                if kind == "close":
                    chan.close()
                    try:
                        ok = chan.isclosed()
                        try:
                            chan.send(1)
                            sent = True
                        except OSError:
                            sent = False
                        chan.waitclose(0)
                        chan.close()
                        w.observe("closer-state", "init", ok, sent)
                    except BaseException as e:  # noqa: BLE001
                        w.observe("closer-exc", "init", type(e).__name__, str(e)[:80])
                else:
                    del chan
                if P.get("busy"):
                    S.join_users()
                # wait until the remote observer finished
                st = None
                for _ in range(200):
                    if any(e[0] == "observer-done" for e in w.obs):
                        break
                    em.sleep(0.05)
                w.exploring = False
            w.observe("main-done")
            S.group.terminate(timeout=5.0)
            w.observe("terminated")

        S.main(main)
        return S

    @staticmethod
    def oracle(w, S, P):
        obs = w.obs
        n, r, wn = P["n"], P["r"], P["w"]
        side = "init" if P["dir"] == "down" else "worker"
        recvs = [e for e in obs if e[0] == "recv" and e[1] == side]
        outcome = tuple(tuple(len(e[3]) for e in recvs))

        def V(key, msg):
            return (f"c03:{key}", f"{msg}\n  params={P}\n  obs={obs}\n  blocked={w.blocked_at_end}\n  stderr={w.stderr.getvalue()[-800:]}"), outcome

        for e in obs:
            if e[0] in ("recv-exc", "waitclose-exc", "drain-exc", "closer-exc", "peer-post-exc", "ctl-exc"):
                return V("unexpected-exception", f"{e}")
            if e[0] == "late-item":
                return V("item-after-close-observed", f"receive() returned {e[3]!r} after EOFError had been raised / waitclose had returned")
            if e[0] == "peer-not-closed":
                return V("peer-not-closed", f"isclosed() false on the peer after it observed the close {e}")
            if e[0] == "peer-send-ok":
                return V("peer-send-after-close", f"send succeeded on the peer after it observed the close {e}")
            if e[0] == "closer-state" and (not e[2] or e[3]):
                return V("closer-state", f"on the closing side isclosed={e[2]} send-succeeded={e[3]}")
        if ("main-done",) not in obs:
            return V("hang", "main thread never finished")
        if P["dir"] == "up" and not any(e[0] == "observer-done" for e in obs):
            return V("hang", "remote observer never finished")
        if len(recvs) != r or sum(1 for e in obs if e[0] == "rdone" and e[1] == side) != r:
            return V("hang", f"{r} receivers expected, finished: {recvs}")
        if sum(1 for e in obs if e[0] == "wdone" and e[1] == side) != wn:
            return V("hang", "waitclose callers did not all return")
        want = [("item", i) for i in range(n)]
        if r:
            allgot = sorted(x for e in recvs for x in e[3])
            if allgot != sorted(want):
                return V("data-lost-before-close", f"receivers obtained {[e[3] for e in recvs]}, sent {want}")
            for e in recvs:
                if list(e[3]) != sorted(e[3]):
                    return V("order", f"receiver got items out of order: {e[3]}")
        else:
            # several waitclose callers share the queue: together they drain exactly what was sent
            drained = [e for e in obs if e[0] == "drained" and e[1] == side]
            got = sorted(x for e in drained for x in e[3])
            if drained and (got != sorted(want) or any(list(e[3]) != sorted(e[3]) for e in drained)):
                return V("drain-after-waitclose", f"after waitclose returned, receive(timeout=0) drained {[e[3] for e in drained]}, sent {want}")
        if ("terminated",) not in obs:
            return V("hang", "terminate did not return")
        return None, outcome


class BothCloseScn:
    """both sides close the same channel concurrently: safety only"""

    @staticmethod
    def scenario(w, P):
        S = Session(w, P.get("transport", "popen"), P.get("backend", "thread"))

        def main():
            gw = S.open()
            ctl = gw.remote_exec(
                """
W = channel.gateway.execmodel.world
c = channel.receive()
try:
    c.send("x")
except OSError:
    pass
try:
    c.close(); c.close()
    W.observe("wclose-ok", c.isclosed())
except BaseException as e:
    W.observe("wclose-exc", type(e).__name__, str(e)[:80])
"""
            )
            c = gw.newchannel()
            w.exploring = True
            ctl.send(c)
            try:
                c.close()
                c.close()
                w.observe("iclose-ok", c.isclosed())
            except BaseException as e:  # noqa: BLE001
                w.observe("iclose-exc", type(e).__name__, str(e)[:80])
            try:
                ctl.waitclose(5)
            except BaseException as e:  # noqa: BLE001
                w.observe("ctl-exc", type(e).__name__, str(e)[:80])
            w.exploring = False
            w.observe("main-done")
            S.group.terminate(timeout=5.0)

        S.main(main)
        return S

    @staticmethod
    def oracle(w, S, P):
        obs = w.obs
        out = tuple(e[0] for e in obs)
        for e in obs:
            if e[0].endswith("-exc"):
                return ("c03:both-close-exception", f"{e} obs={obs}"), out
        if ("main-done",) not in obs or ("wclose-ok", True) not in obs or ("iclose-ok", True) not in obs:
            return ("c03:both-close-hang", f"obs={obs} blocked={w.blocked_at_end}"), out
        return None, out


class LateCloseScn:
    """the peer ended its side first (P["how"]), then this side closes explicitly: on the closing side
    isclosed() is true, send raises OSError, a second close is a no-op -- whatever state the peer's
    ending had left the channel in (closed, "sendonly" after a dropped handle, connection finished)"""

    PEER = {
        "peer-close": "c = channel.receive()\nc.send('last')\nc.close()\nchannel.send('ended')\nchannel.receive()",
        "peer-drop": "c = channel.receive()\nc.send('last')\ndel c\nchannel.send('ended')\nchannel.receive()",
        "peer-drop-cb": "W = channel.gateway.execmodel.world\nc = channel.receive()\nc.send('last')\nc.setcallback(lambda x: W.observe('peer-cb', x), endmarker='END')\ndel c\nchannel.send('ended')\nchannel.receive()",
        "gateway-exit": "c = channel.receive()\nc.send('last')\nchannel.send('ended')\nchannel.receive()",
    }

    @staticmethod
    def scenario(w, P):
        S = Session(w, P.get("transport", "popen"), P.get("backend", "thread"))

        def main():
            gw = S.open()
            em = S.proc.execmodel
            ctl = gw.remote_exec(LateCloseScn.PEER[P["how"]])
            c = gw.newchannel()
            ctl.send(c)
            w.exploring = True
            try:
                ctl.receive(timeout=10)
                got = [c.receive(timeout=10)]
                if P["how"] == "gateway-exit":
                    gw.exit()
                    gw.join(timeout=10)
                if P["how"] != "peer-drop-cb" or P.get("drain"):
                    try:
                        c.receive(timeout=5)
                        got.append("extra")
                    except EOFError:
                        got.append("EOF")
                    except c.TimeoutError:
                        got.append("timeout")
                w.observe("got", got)
                c.close()
                st = [c.isclosed()]
                try:
                    c.send(1)
                    st.append("sent")
                except OSError:
                    st.append("OSError")
                c.close()
                st.append(c.isclosed())
                try:
                    c.waitclose(5)
                    st.append("waitclose-ok")
                except BaseException as e:  # noqa: BLE001
                    st.append(type(e).__name__)
                w.observe("closer", st)
            except BaseException as e:  # noqa: BLE001
                w.observe("closer-exc", type(e).__name__, str(e)[:100])
            em.sleep(1.0)
            w.exploring = False
            w.observe("main-done")
            try:
                ctl.send("bye")
            except OSError:
                pass
            S.group.terminate(timeout=5.0)

        S.main(main)
        return S

    @staticmethod
    def oracle(w, S, P):
        obs = w.obs
        out = tuple(e[0] for e in obs)
        if ("main-done",) not in obs:
            return ("c03:late-close-hang", f"P={P} obs={obs} blocked={w.blocked_at_end}"), out
        for e in obs:
            if e[0] == "closer-exc":
                return ("c03:late-close-exception", f"P={P} {e}"), out
        st = [e[1] for e in obs if e[0] == "closer"]
        # waitclose() after the connection is gone may report the loss (EOFError): not part of this clause
        if not st or st[0][:3] != [True, "OSError", True] or st[0][3] not in ("waitclose-ok", "EOFError"):
            return ("c03:closer-state", f"P={P}: after the peer had ended its side ({P['how']}) an explicit close() left [isclosed, send, isclosed after 2nd close, waitclose] = {st}; expected [True, 'OSError', True, 'waitclose-ok']\n  obs={obs}"), out
        if P["how"] == "peer-drop-cb":
            cb = [e[1] for e in obs if e[0] == "peer-cb"]
            if cb != ["END"]:
                return ("c03:peer-callback-not-ended", f"P={P}: the peer listens through a callback; after our close() it saw {cb}, expected exactly its endmarker"), out
        return None, out


class FailedCloseScn:
    """a close() that FAILS (its error object cannot be serialised) must leave the channel in a
    consistent state: either still open, or closed with everything that means (waitclose returns,
    receive raises EOFError); a later plain close() then ends the conversation for the peer"""

    @staticmethod
    def scenario(w, P):
        S = Session(w, P.get("transport", "popen"), P.get("backend", "thread"))

        def main():
            gw = S.open()
            em = S.proc.execmodel
            ctl = gw.remote_exec("W = channel.gateway.execmodel.world\nc = channel.receive()\ngot = []\ntry:\n    while True:\n        got.append(c.receive(timeout=10))\nexcept EOFError:\n    W.observe('peer', got, 'EOF')\nexcept BaseException as e:\n    W.observe('peer', got, type(e).__name__)")
            c = gw.newchannel()
            ctl.send(c)
            c.send(1)
            w.exploring = True
            try:
                c.close(error=_ERRORS[P["error"]]())
                w.observe("failed-close", "accepted")
            except BaseException as e:  # noqa: BLE001
                w.observe("failed-close", type(e).__name__)
            st = {"isclosed": c.isclosed()}
            if st["isclosed"]:
                try:
                    c.waitclose(2)
                    st["waitclose"] = "returned"
                except c.TimeoutError:
                    st["waitclose"] = "TimeoutError"
                except BaseException as e:  # noqa: BLE001
                    st["waitclose"] = type(e).__name__
            else:
                try:
                    c.send(2)
                    st["send"] = "ok"
                except OSError:
                    st["send"] = "OSError"
            try:
                c.close()
                st["second-close"] = c.isclosed()
            except BaseException as e:  # noqa: BLE001
                st["second-close"] = type(e).__name__
            w.observe("state", st)
            em.sleep(1.0)
            try:
                ctl.waitclose(10)
                w.observe("ctl", "closed")
            except BaseException as e:  # noqa: BLE001
                w.observe("ctl", type(e).__name__)
            w.exploring = False
            w.observe("main-done")
            S.group.terminate(timeout=5.0)

        S.main(main)
        return S

    @staticmethod
    def oracle(w, S, P):
        obs = w.obs
        out = tuple(e[0] for e in obs)
        if ("main-done",) not in obs:
            return ("c03:failed-close-hang", f"obs={obs} blocked={w.blocked_at_end}"), out
        st = [e[1] for e in obs if e[0] == "state"][0]
        if st["isclosed"] and st.get("waitclose") != "returned":
            return ("c03:half-closed", f"after a close() that failed, isclosed() is true but waitclose() -> {st.get('waitclose')}: {obs}"), out
        if not st["isclosed"] and st.get("send") != "ok":
            return ("c03:half-closed", f"after a close() that failed, isclosed() is false but send -> {st.get('send')}: {obs}"), out
        if st["second-close"] is not True:
            return ("c03:half-closed", f"a plain close() after the failed one: {st['second-close']}"), out
        peer = [e for e in obs if e[0] == "peer"]
        want = [1] if st["isclosed"] else [1, 2]
        if not peer or peer[0][2] not in ("EOF", "RemoteError") or peer[0][1] != want:
            return ("c03:peer-never-told", f"the peer of a channel whose first close() failed and whose second close() succeeded saw {peer} (expected items {want}, then the end): {obs}"), out
        return None, out


class _Unserialisable:
    pass


_ERRORS = {"object": _Unserialisable, "exception": lambda: ValueError("boom")}


SCENARIOS = {"close": CloseScn, "both": BothCloseScn, "late": LateCloseScn, "failedclose": FailedCloseScn}


def stmt_pred(m, q, l):
    return m == "gateway_base" and (q.startswith("Channel.") or q.startswith("ChannelFactory.") or q.startswith("WorkerGateway.executetask"))


def histories(tier):
    hs = []
    for d, kinds in (("down", ("body-end", "body-eof", "close", "drop", "drop-cb")), ("up", ("close", "drop", "drop-cb"))):
        for kind in kinds:
            for n in (0, 2) if tier == "quick" else (0, 1, 2, 3):
                for r, wn in ((1, 0), (2, 1), (0, 1)) if tier == "quick" else ((1, 0), (2, 0), (2, 1), (1, 2), (0, 1), (0, 2), (3, 1)):
                    if n == 0 and (r, wn) not in ((2, 1), (0, 1)):
                        continue
                    hs.append({"dir": d, "kind": kind, "n": n, "r": r, "w": wn})
    # the same endings while another thread of the closing process is sending on another channel
    for d in ("down", "up"):
        for kind in ("close", "drop", "drop-cb"):
            for n, r, wn in ((1, 1, 0), (1, 0, 1)) if tier == "quick" else ((0, 0, 1), (1, 1, 0), (1, 0, 1), (2, 1, 1)):
                hs.append({"dir": d, "kind": kind, "n": n, "r": r, "w": wn, "busy": True})
    return hs


def run(tier: str, only=None) -> int:
    rep = evidence.Report(PID, tier, "model_checking")
    rep.rule.append("send/close histories (n items; explicit close / end of exec / reference drop with and without callback; both directions; r receivers, w waitclose callers) x all interleavings within the bounds")
    rep.assumptions += [
        "CHANNEL_LAST_MESSAGE (dropped channel that had a callback) leaves the peer allowed to send by design: the closed-for-good clause is applied only where a CHANNEL_CLOSE frame exists",
        "virtual primitives / discrete time / statement granularity as in DESIGN 7",
    ]
    stmt = harness.stmt_mask(stmt_pred)
    if tier == "quick":
        b_sync, b_stmt, cap = {"ps": 2, "free": 1}, {"ps": 0, "pl": 1, "free": 0}, 300000
    else:
        # thorough = four times the histories (n in 0..3, up to 3 receivers / 2 waitclose callers) at the quick
        # bounds; one more free pick for the small ones
        b_sync, b_stmt, cap = {"ps": 2, "free": 1}, {"ps": 0, "pl": 1, "free": 1}, 6000000
    for i, H in enumerate(histories(tier)):
        name = f"close/{i}:{H['dir']}:{H['kind']}:n{H['n']}r{H['r']}w{H['w']}" + (":busy" if H.get("busy") else "")
        if only and only not in name:
            continue
        P = dict(H, transport="popen", backend="thread")
        rep.sample({"sub": name, "params": P})
        big = H["r"] + H["w"] >= 3
        small = H["r"] + H["w"] <= 1
        harness.run_exploration(rep, PID, name + "/sync", CloseScn, P, {"ps": 1, "free": 1} if big else ({"ps": 2, "free": 2} if small and tier != "quick" else b_sync), max_execs=cap)
        harness.run_exploration(rep, PID, name + "/stmt", CloseScn, P, b_stmt, stmt=stmt, max_execs=cap)
    # the same histories on the other transports and worker exec models (default schedule + 1 preemption)
    for i, H in enumerate(histories(tier)):
        if tier == "quick" and (H["n"], H["r"], H["w"]) != (2, 2, 1) or H.get("busy"):
            continue
        if tier != "quick" and (H["n"], H["r"], H["w"]) not in ((2, 2, 1), (2, 1, 0), (2, 0, 1), (0, 0, 1), (3, 3, 1)):
            continue
        for tr, be in (("socket", "thread"), ("via", "thread"), ("popen", "main_thread_only"), ("popen", "gevent")):
            name = f"close/{i}:{H['dir']}:{H['kind']}:n{H['n']}r{H['r']}w{H['w']}/{tr}:{be}"
            if only and only not in name:
                continue
            P = dict(H, transport=tr, backend=be)
            harness.run_exploration(rep, PID, name, CloseScn, P, {"ps": 1, "free": 0}, max_execs=cap)
    for tr in ("popen", "socket", "via"):
        for kind in ("close", "drop"):
            name = f"close-gc/{kind}:{tr}"
            if only and only not in name:
                continue
            P = {"dir": "up", "kind": kind, "n": 2, "r": 1, "w": 1, "gc": True, "transport": tr, "backend": "thread"}
            harness.run_exploration(rep, PID, name, CloseScn, P, {"ps": 0, "env": 1, "free": 0}, max_execs=cap)
    for how in LateCloseScn.PEER:
        for tr, be in (("popen", "thread"), ("socket", "thread"), ("via", "thread"), ("popen", "main_thread_only")):
            if (tr, be) != ("popen", "thread") and tier == "quick" and how not in ("peer-drop-cb", "gateway-exit"):
                continue
            name = f"late/{how}:{tr}:{be}"
            if only and only not in name:
                continue
            P = {"how": how, "transport": tr, "backend": be}
            harness.run_exploration(rep, PID, name, LateCloseScn, P, {"ps": 1, "free": 0} if tier == "quick" else {"ps": 2, "free": 1}, max_execs=cap)
    for ename in ("object", "exception"):
        for tr in ("popen", "via"):
            name = f"failedclose/{ename}:{tr}"
            if only and only not in name:
                continue
            harness.run_exploration(rep, PID, name, FailedCloseScn, {"error": ename, "transport": tr, "backend": "thread"}, {"ps": 1, "free": 0}, max_execs=cap)
    if not only or "both" in only:
        P = {"transport": "popen", "backend": "thread"}
        harness.run_exploration(rep, PID, "both/sync", BothCloseScn, P, b_sync, max_execs=cap)
        harness.run_exploration(rep, PID, "both/stmt", BothCloseScn, P, {"ps": 0, "pl": 2, "free": 1}, stmt=stmt, max_execs=cap)
    return rep.finish()


def replay(path: str) -> int:
    return harness.replay_file(path, SCENARIOS, stmt_for=lambda d: harness.stmt_mask(stmt_pred))
