"""function shapes for C06 (kept in a real file: remote_exec ships inspect.getsource)"""

import os
import os as _os_alias
from functools import wraps

GLOBAL_CONST = 5


def helper(x):
    return x + 1


def deco(f):
    @wraps(f)
    def w(*a, **k):
        return f(*a, **k)

    return w


# ---- expected to be shippable ------------------------------------------------
def plain(channel):
    channel.send("plain")


def with_args(channel, a, b=2):
    channel.send(("with_args", a, b))


def with_kwonly(channel, *, k=3):
    channel.send(("kwonly", k))


def with_varkw(channel, **kw):
    channel.send(("varkw", sorted(kw.items())))


def uses_builtins(channel, n=3):
    channel.send(("builtins", len(list(range(n))), str(max(1, 2)), isinstance(n, int)))


def inner_import(channel):
    import os.path as p

    channel.send(("inner_import", p.basename("/a/b")))


def inner_def(channel):
    def sq(x):
        return x * x

    channel.send(("inner_def", sq(4)))


def inner_closure(channel):
    base = 10

    def add(x):
        return x + base

    channel.send(("inner_closure", add(1)))


def inner_class(channel):
    class C:
        v = 7

    channel.send(("inner_class", C.v))


def comprehension(channel, n=3):
    channel.send(("comp", [i * 2 for i in range(n)], {k: 1 for k in "ab"}))


def local_shadows_global(channel):
    GLOBAL_CONST = 1  # noqa: N806
    channel.send(("shadow", GLOBAL_CONST))


def try_except(channel):
    try:
        raise ValueError("x")
    except ValueError as e:
        channel.send(("try", str(e)))


def star_args(channel, *rest):
    channel.send(("star", len(rest)))


def annotated(channel, a: int = 1) -> None:
    channel.send(("annotated", a))


def docstring_only(channel):
    """nothing else"""


def global_as_attribute_name(channel):
    class O:
        os = 3

    channel.send(("attrname", O.os))


def default_builtin(channel, f=len):
    channel.send(("default_builtin", f("ab")))


def walrus_and_fstring(channel, n=2):
    if (m := n + 1) > 2:
        channel.send(("walrus", f"{m}"))


def deletes_local(channel):
    x = 1
    del x
    channel.send("deleted")


def nested_two_levels(channel):
    def outer():
        def inner():
            return 2

        return inner()

    channel.send(("nested2", outer()))


# ---- expected to be refused ------------------------------------------------
def uses_global(channel):
    channel.send(GLOBAL_CONST)


def uses_helper(channel):
    channel.send(helper(1))


def uses_module_global(channel):
    channel.send(os.getcwd())


def uses_aliased_module(channel):
    channel.send(_os_alias.sep)


def default_from_global(channel, a=GLOBAL_CONST):
    channel.send(a)


def global_in_inner_def(channel):
    def g():
        return GLOBAL_CONST

    channel.send(g())


def global_in_comprehension(channel):
    channel.send([GLOBAL_CONST for _ in range(2)])


def global_in_lambda_inside(channel):
    f = lambda: helper(2)  # noqa: E731
    channel.send(f())


def annotation_from_global(channel, a: "GLOBAL_CONST" = 1):  # noqa: F821
    channel.send(a)


# the same references from bodies whose OUTER code object mentions nothing but builtins and locals (no
# attribute access at all): only the nested code objects / the def's own defaults know about the global
def quiet_global_in_inner_def(channel):
    def g(c):
        c.send(GLOBAL_CONST)

    g(channel)


def quiet_global_in_lambda(channel):
    f = lambda c: c.send(helper(2))  # noqa: E731
    f(channel)


def quiet_global_in_genexp(channel):
    list(c.send(GLOBAL_CONST) for c in [channel])


def quiet_global_in_inner_class(channel):
    class A:
        x = GLOBAL_CONST

    len([A])


def quiet_default_from_global(channel, a=GLOBAL_CONST):
    len([a])


def quiet_kwdefault_from_global(channel, *, a=GLOBAL_CONST):
    len([a])


def quiet_pure_inner_def(channel):
    def g(c):
        c.send(len("four"))

    g(channel)


def quiet_pure_nothing(channel):
    len([channel])


@deco
def decorated(channel):
    channel.send("decorated")


def wrong_first(chan):
    chan.send(1)


def no_params():
    pass


def channel_second(a, channel):
    channel.send(a)


def kwonly_channel(*, channel):
    channel.send(1)


def star_channel(*channel):
    channel[0].send(1)


def starstar_channel(**channel):
    pass


def kwonly_channel_after_star(*args, channel):
    channel.send(1)


def posonly_channel(channel, /, a=1):
    channel.send(("posonly", a))


def channel_with_default(channel=None):
    channel.send("default")


lambda_fn = lambda channel: channel.send(1)  # noqa: E731


def make_closure():
    captured = 3

    def closes_over(channel):
        channel.send(captured)

    return closes_over


closes_over = make_closure()


def make_nested_pure():
    def nested_pure(channel, a=1):
        channel.send(("nested_pure", a))

    return nested_pure


nested_pure = make_nested_pure()


class K:
    def method(self, channel):
        channel.send(1)

    @staticmethod
    def static(channel):
        channel.send("static")


ALL = {
    name: obj
    for name, obj in list(globals().items())
    if callable(obj) and getattr(obj, "__module__", None) == __name__ and name not in ("helper", "deco", "make_closure", "make_nested_pure", "K", "wraps")
}
ALL["K.method"] = K.method
ALL["K.static"] = K.static


# ---- semantics --------------------------------------------------------------
def raises_at(channel, i=0, n=4):
    channel.send("s0")
    if i == 0: raise ValueError("stmt0")  # noqa: E701
    channel.send("s1")
    if i == 1: raise ValueError("stmt1")  # noqa: E701
    x = channel.receive()
    if i == 2: raise ValueError("stmt2 " + str(x))  # noqa: E701
    channel.send("s3")
    if i == 3: raise ValueError("stmt3")  # noqa: E701
    return "ignored"


def echo_kwargs(channel, **kw):
    channel.send(kw)
    channel.send(__name__)  # noqa: F821


def deep_raise(channel, depth=3):
    def down(n):
        if n == 0:
            raise LookupError("deep-raise")  # MARK-DEEP
        return down(n - 1)

    down(depth)


def check_kwargs(channel, text, data, n):
    ok = type(text) is str and text == "t\u20ac" and type(data) is bytes and data == b"d" and n == 1
    channel.send(1 if ok else 0)


def close_inside(channel):
    try:
        channel.close()
        channel.send("closed-ok")
    except OSError as e:
        channel.send(("refused", str(e)))
