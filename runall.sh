#!/bin/sh
# run every check once (tier from $1, default quick); prints one summary line per check
cd "$(dirname "$0")" || exit 2
tier="${1:-quick}"
rc=0
for p in C01 C02 C03 C04 C05 C06 C07 C08 C09 C10 C11 C12 C13 C14 C15 C16 C17 C18 C19 C20; do
  start=$(date +%s)
  out=$(./vcheck $p --tier "$tier" 2>&1); r=$?
  end=$(date +%s)
  echo "$p rc=$r $((end-start))s :: $(echo "$out" | grep -E "^$p |^VIOLATION|INTERNAL" | tail -2 | tr '\n' ' ' | cut -c1-220)"
  [ $r -ne 0 ] && rc=1
done
exit $rc
