"""engine selftest (DESIGN 5): primitive conformance against real threading,
replay determinism, seeded-bug canaries the explorer must find."""

from __future__ import annotations

import os
import sys
import threading
import queue
import time

os.environ.setdefault("PYTHONHASHSEED", "0")
from engine import explorer
from engine import vworld

vworld.setup()


class Scn:
    def __init__(self, body, nthreads):
        self.body = body
        self.n = nthreads

    def scenario(self, w, P):
        p = w.new_proc("p")
        em = p.execmodel
        ctx = {"out": [], "shared": {}}
        prims = {"Lock": em.Lock, "Event": em.Event, "Queue": em.queue.Queue, "Empty": em.queue.Empty, "sleep": em.sleep}
        fns = self.body(prims, ctx)
        w.exploring = True
        for i, f in enumerate(fns):
            w.spawn(f, proc=p, name=f"t{i}", role="user")
        return ctx

    def oracle(self, w, ctx, P):
        blocked = tuple(sorted(b[0] for b in w.blocked_at_end))
        out = (tuple(sorted(map(repr, ctx["out"]))), blocked)
        bad = P.get("bad")
        if bad and bad(ctx, blocked):
            return ("selftest:bug", repr(out)), out
        return None, out


def real_outcomes(body, runs=150):
    outs = set()
    for _ in range(runs):
        ctx = {"out": [], "shared": {}}
        prims = {"Lock": threading.RLock, "Event": threading.Event, "Queue": queue.Queue, "Empty": queue.Empty, "sleep": time.sleep}
        fns = body(prims, ctx)
        ths = [threading.Thread(target=f, daemon=True) for f in fns]
        for t in ths:
            t.start()
        blocked = []
        for i, t in enumerate(ths):
            t.join(0.3)
            if t.is_alive():
                blocked.append(f"t{i}")
        outs.add((tuple(sorted(map(repr, ctx["out"]))), tuple(sorted(blocked))))
    return outs


# ---- tiny programs over lock / event / queue ---------------------------
def prog_lock_counter(pr, ctx):
    L = pr["Lock"]()
    sh = ctx["shared"]
    sh["n"] = 0

    def inc():
        with L:
            x = sh["n"]
            sh["n"] = x + 1
        ctx["out"].append(("n", sh["n"] >= 1))

    return [inc, inc]


def prog_event_handoff(pr, ctx):
    E = pr["Event"]()

    def a():
        E.set()
        ctx["out"].append("set")

    def b():
        ctx["out"].append(("wait", E.wait(5)))

    return [a, b]


def prog_event_timeout(pr, ctx):
    E = pr["Event"]()

    def b():
        ctx["out"].append(("wait", E.wait(0.05)))

    return [b]


def prog_queue_fifo(pr, ctx):
    Q = pr["Queue"]()

    def prod():
        Q.put(1)
        Q.put(2)

    def cons():
        a = Q.get()
        b = Q.get(timeout=5)
        ctx["out"].append((a, b))

    return [prod, cons]


def prog_queue_empty(pr, ctx):
    Q = pr["Queue"]()

    def cons():
        try:
            Q.get(block=False)
        except pr["Empty"]:
            ctx["out"].append("empty")
        try:
            Q.get(timeout=0.02)
        except pr["Empty"]:
            ctx["out"].append("empty2")

    return [cons]


def prog_two_consumers(pr, ctx):
    Q = pr["Queue"]()

    def prod():
        Q.put("x")

    def cons():
        try:
            ctx["out"].append(Q.get(timeout=0.1))
        except pr["Empty"]:
            ctx["out"].append("none")

    return [prod, cons, cons]


def prog_rlock_reentrant(pr, ctx):
    L = pr["Lock"]()

    def a():
        with L:
            with L:
                ctx["out"].append("in")
        ctx["out"].append(L.acquire(False))
        L.release()

    return [a]


def prog_lock_nonblocking(pr, ctx):
    L = pr["Lock"]()
    E = pr["Event"]()
    F = pr["Event"]()

    def a():
        L.acquire()
        E.set()
        F.wait(5)
        L.release()

    def b():
        E.wait(5)
        ctx["out"].append(("try", L.acquire(False)))
        F.set()

    return [a, b]


PROGRAMS = [prog_lock_counter, prog_event_handoff, prog_event_timeout, prog_queue_fifo, prog_queue_empty, prog_two_consumers, prog_rlock_reentrant, prog_lock_nonblocking]


# ---- canaries -------------------------------------------------------------
def canary_lost_update(pr, ctx):
    L = pr["Lock"]()
    sh = ctx["shared"]
    sh["n"] = 0

    def inc():
        with L:
            x = sh["n"]
        with L:
            sh["n"] = x + 1
        ctx["out"].append("done")

    return [inc, inc]


def canary_lost_wakeup(pr, ctx):
    E = pr["Event"]()
    sh = ctx["shared"]
    sh["ready"] = False
    L = pr["Lock"]()

    def waiter():
        with L:
            r = sh["ready"]
        if not r:
            E.clear()
            E.wait()
        ctx["out"].append("woke")

    def setter():
        with L:
            sh["ready"] = True
        E.set()

    return [waiter, setter]


def main() -> int:
    t0 = time.time()
    fails = 0
    # (1) conformance: every outcome real threads produce is in the explored set
    for prog in PROGRAMS:
        scn = Scn(prog, 0)
        st = explorer.explore(scn, {}, {"ps": 3, "free": None}, procs=1, max_execs=20000)
        explored = set(st.outcomes)
        real = real_outcomes(prog, runs=40)
        missing = real - explored
        print(f"selftest conformance {prog.__name__}: explored={len(explored)} outcomes in {st.execs} executions, real={len(real)}, missing={len(missing)}")
        if missing or st.violations or st.budget_hit:
            print("  FAIL", missing, st.violations[:1], st.budget_hit)
            fails += 1
    # (2) determinism: same prefix twice -> identical logs; two seeds -> same execution set
    scn = Scn(prog_two_consumers, 0)
    a = explorer.explore(scn, {}, {"ps": 2, "free": None}, procs=1, seed=0)
    b = explorer.explore(scn, {}, {"ps": 2, "free": None}, procs=4, seed=7)
    print(f"selftest determinism: digest {a.exec_digest:016x} / {b.exec_digest:016x}, execs {a.execs}/{b.execs}")
    if a.exec_digest != b.exec_digest or a.execs != b.execs:
        print("  FAIL: explored set depends on seed / parallelism")
        fails += 1
    # (3) canaries
    for prog, bad in [
        (canary_lost_update, lambda ctx, blocked: ctx["shared"]["n"] != 2),
        (canary_lost_wakeup, lambda ctx, blocked: bool(blocked)),
    ]:
        scn = Scn(prog, 0)
        st = explorer.explore(scn, {"bad": bad}, {"ps": 2, "free": None}, procs=1)
        found = bool(st.violations)
        print(f"selftest canary {prog.__name__}: found={found} after {st.execs} executions")
        if not found:
            fails += 1
        else:
            prefix = st.violations[0][0]
            explorer.confirm(scn, {"bad": bad}, prefix)
    print(f"selftest: {'OK' if not fails else 'FAILED'} in {time.time() - t0:.1f}s")
    return 2 if fails else 0


if __name__ == "__main__":
    sys.exit(main())
