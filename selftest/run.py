"""engine selftest (DESIGN 5): primitive conformance against real threading,
replay determinism, seeded-bug canaries the explorer must find."""

from __future__ import annotations

import os
import sys
import threading
import queue
import time

os.environ.setdefault("PYTHONHASHSEED", "0")
from engine import explorer
from engine import vworld

vworld.setup()


class Scn:
    def __init__(self, body, nthreads):
        self.body = body
        self.n = nthreads

    def scenario(self, w, P):
        p = w.new_proc("p")
        em = p.execmodel
        ctx = {"out": [], "shared": {}}
        prims = {"Lock": em.Lock, "Event": em.Event, "Queue": em.queue.Queue, "Empty": em.queue.Empty, "sleep": em.sleep}
        fns = self.body(prims, ctx)
        w.exploring = True
        for i, f in enumerate(fns):
            w.spawn(f, proc=p, name=f"t{i}", role="user")
        return ctx

    def oracle(self, w, ctx, P):
        blocked = tuple(sorted(b[0] for b in w.blocked_at_end))
        out = (tuple(sorted(map(repr, ctx["out"]))), blocked)
        bad = P.get("bad")
        if bad and bad(ctx, blocked):
            return ("selftest:bug", repr(out)), out
        return None, out


def real_outcomes(body, runs=150):
    outs = set()
    for _ in range(runs):
        ctx = {"out": [], "shared": {}}
        prims = {"Lock": threading.RLock, "Event": threading.Event, "Queue": queue.Queue, "Empty": queue.Empty, "sleep": time.sleep}
        fns = body(prims, ctx)
        ths = [threading.Thread(target=f, daemon=True) for f in fns]
        for t in ths:
            t.start()
        blocked = []
        for i, t in enumerate(ths):
            t.join(0.3)
            if t.is_alive():
                blocked.append(f"t{i}")
        outs.add((tuple(sorted(map(repr, ctx["out"]))), tuple(sorted(blocked))))
    return outs


# ---- tiny programs over lock / event / queue ---------------------------
def prog_lock_counter(pr, ctx):
    L = pr["Lock"]()
    sh = ctx["shared"]
    sh["n"] = 0

    def inc():
        with L:
            x = sh["n"]
            sh["n"] = x + 1
        ctx["out"].append(("n", sh["n"] >= 1))

    return [inc, inc]


def prog_event_handoff(pr, ctx):
    E = pr["Event"]()

    def a():
        E.set()
        ctx["out"].append("set")

    def b():
        ctx["out"].append(("wait", E.wait(5)))

    return [a, b]


def prog_event_timeout(pr, ctx):
    E = pr["Event"]()

    def b():
        ctx["out"].append(("wait", E.wait(0.05)))

    return [b]


def prog_queue_fifo(pr, ctx):
    Q = pr["Queue"]()

    def prod():
        Q.put(1)
        Q.put(2)

    def cons():
        a = Q.get()
        b = Q.get(timeout=5)
        ctx["out"].append((a, b))

    return [prod, cons]


def prog_queue_empty(pr, ctx):
    Q = pr["Queue"]()

    def cons():
        try:
            Q.get(block=False)
        except pr["Empty"]:
            ctx["out"].append("empty")
        try:
            Q.get(timeout=0.02)
        except pr["Empty"]:
            ctx["out"].append("empty2")

    return [cons]


def prog_two_consumers(pr, ctx):
    Q = pr["Queue"]()

    def prod():
        Q.put("x")

    def cons():
        try:
            ctx["out"].append(Q.get(timeout=0.1))
        except pr["Empty"]:
            ctx["out"].append("none")

    return [prod, cons, cons]


def prog_rlock_reentrant(pr, ctx):
    L = pr["Lock"]()

    def a():
        with L:
            with L:
                ctx["out"].append("in")
        ctx["out"].append(L.acquire(False))
        L.release()

    return [a]


def prog_lock_nonblocking(pr, ctx):
    L = pr["Lock"]()
    E = pr["Event"]()
    F = pr["Event"]()

    def a():
        L.acquire()
        E.set()
        F.wait(5)
        L.release()

    def b():
        E.wait(5)
        ctx["out"].append(("try", L.acquire(False)))
        F.set()

    return [a, b]


PROGRAMS = [prog_lock_counter, prog_event_handoff, prog_event_timeout, prog_queue_fifo, prog_queue_empty, prog_two_consumers, prog_rlock_reentrant, prog_lock_nonblocking]


# ---- canaries -------------------------------------------------------------
def canary_lost_update(pr, ctx):
    L = pr["Lock"]()
    sh = ctx["shared"]
    sh["n"] = 0

    def inc():
        with L:
            x = sh["n"]
        with L:
            sh["n"] = x + 1
        ctx["out"].append("done")

    return [inc, inc]


def canary_lost_wakeup(pr, ctx):
    E = pr["Event"]()
    sh = ctx["shared"]
    sh["ready"] = False
    L = pr["Lock"]()

    def waiter():
        with L:
            r = sh["ready"]
        if not r:
            E.clear()
            E.wait()
        ctx["out"].append("woke")

    def setter():
        with L:
            sh["ready"] = True
        E.set()

    return [waiter, setter]


def nondaemon_conformance() -> int:
    import subprocess

    res = {}
    for kind in ("nondaemon", "daemon"):
        def scenario(w, P, kind=kind):
            p = w.new_proc("p")
            em = p.execmodel

            def main():
                def linger():
                    em.sleep(0.3)

                if kind == "nondaemon":
                    em.start_nondaemon(linger)
                else:
                    em.start(linger)

            w.spawn(main, proc=p, name="main", role="user", is_main=True)
            return p

        r = explorer.run_once(scenario, lambda w, p, P: (None, round(p.exit_time or -1, 3)), {}, [])
        code = "import threading, time\nthreading.Thread(target=time.sleep, args=(0.3,), daemon=%s).start()" % (kind == "daemon")
        t = time.time()
        subprocess.run([sys.executable, "-c", code], check=True)
        res[kind] = (r.outcome, time.time() - t)
    ok = res["nondaemon"][0] >= 0.3 and res["nondaemon"][1] >= 0.3 and res["daemon"][0] < 0.3 and res["daemon"][1] < 0.3
    print(f"selftest non-daemon threads: virtual exit at {res['nondaemon'][0]} / {res['daemon'][0]} s, real {res['nondaemon'][1]:.2f} / {res['daemon'][1]:.2f} s: {'ok' if ok else 'FAIL'}")
    return 0 if ok else 1


def gc_canary() -> int:
    from engine import instrument

    src = "def critical(sh):\n    x = sh['n']\n    sh['n'] = x + 1\n"
    ns: dict = {}
    exec(instrument.instrument_source(src, "<selftest-gc>", "selftest_gc"), ns)
    mask = instrument.select(lambda m, q, l: m == "selftest_gc")

    def scenario(w, P):
        p = w.new_proc("p")
        sh = {"n": 0}

        class Fin:
            def __del__(self):
                sh["n"] += 10

        def main():
            f = Fin()
            f.me = f
            del f  # cyclic garbage: only the collector finalizes it
            w.gc_mask = mask if P["gc"] else None
            w.exploring = True
            ns["critical"](sh)
            w.exploring = False
            w.gc_mask = None
            import gc

            gc.collect()

        w.spawn(main, proc=p, name="main", role="user", is_main=True)
        return sh

    def oracle(w, sh, P):
        return (("selftest:gc", f"n={sh['n']}") if sh["n"] != 11 else None), sh["n"]

    class S:
        pass

    S.scenario, S.oracle = staticmethod(scenario), staticmethod(oracle)
    off = explorer.explore(S, {"gc": False}, {"ps": 0, "env": 1, "free": 0}, procs=1)
    on = explorer.explore(S, {"gc": True}, {"ps": 0, "env": 1, "free": 0}, procs=1)
    ok = not off.violations and bool(on.violations) and sorted(on.outcomes) == [1, 11]
    print(f"selftest canary gc-as-environment: without gc choices {sorted(off.outcomes)}, with {sorted(on.outcomes)} in {on.execs} executions: {'ok' if ok else 'FAIL'}")
    if on.violations:
        explorer.confirm(S, {"gc": True}, on.violations[0][0])
    return 0 if ok else 1


def main() -> int:
    t0 = time.time()
    fails = 0
    # (1) conformance: every outcome real threads produce is in the explored set
    for prog in PROGRAMS:
        scn = Scn(prog, 0)
        st = explorer.explore(scn, {}, {"ps": 3, "free": None}, procs=1, max_execs=20000)
        explored = set(st.outcomes)
        real = real_outcomes(prog, runs=40)
        missing = real - explored
        print(f"selftest conformance {prog.__name__}: explored={len(explored)} outcomes in {st.execs} executions, real={len(real)}, missing={len(missing)}")
        if missing or st.violations or st.budget_hit:
            print("  FAIL", missing, st.violations[:1], st.budget_hit)
            fails += 1
    # (2) determinism: same prefix twice -> identical logs; two seeds -> same execution set
    scn = Scn(prog_two_consumers, 0)
    a = explorer.explore(scn, {}, {"ps": 2, "free": None}, procs=1, seed=0)
    b = explorer.explore(scn, {}, {"ps": 2, "free": None}, procs=4, seed=7)
    print(f"selftest determinism: digest {a.exec_digest:016x} / {b.exec_digest:016x}, execs {a.execs}/{b.execs}")
    if a.exec_digest != b.exec_digest or a.execs != b.execs:
        print("  FAIL: explored set depends on seed / parallelism")
        fails += 1
    # (3) canaries
    for prog, bad in [
        (canary_lost_update, lambda ctx, blocked: ctx["shared"]["n"] != 2),
        (canary_lost_wakeup, lambda ctx, blocked: bool(blocked)),
    ]:
        scn = Scn(prog, 0)
        st = explorer.explore(scn, {"bad": bad}, {"ps": 2, "free": None}, procs=1)
        found = bool(st.violations)
        print(f"selftest canary {prog.__name__}: found={found} after {st.execs} executions")
        if not found:
            fails += 1
        else:
            prefix = st.violations[0][0]
            explorer.confirm(scn, {"bad": bad}, prefix)
    # (4) a non-daemon thread keeps a (virtual and a real) process alive, a daemon thread does not
    fails += nondaemon_conformance()
    # (5) the cyclic collector as an environment choice: a finalizer landing inside a two-statement update
    fails += gc_canary()
    print(f"selftest: {'OK' if not fails else 'FAILED'} in {time.time() - t0:.1f}s")
    return 2 if fails else 0


if __name__ == "__main__":
    sys.exit(main())
