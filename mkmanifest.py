#!/usr/bin/env python3
"""regenerates MANIFEST.json from the table below (kept valid at all times)"""
import json, os
HERE = os.path.dirname(os.path.abspath(__file__))
props = [json.loads(l) for l in open(os.path.join(HERE, "properties.jsonl"))]

MC = "model_checking"
CHECKS = {

 "C05": dict(
   level=MC, design="DESIGN.md section 2, C05",
   technique="stateless model checking on a virtual process table and clock (remote state x topology x exec model x timeout x moment, interleavings within bounds) plus a completely enumerated conformance matrix on real processes",
   text="9 remote states (idle, blocked in receive, sleeping loop, busy loop, KeyboardInterrupt-swallowing loop, extra daemon thread, mid-send, SIGSTOPped, already dead) x topologies {popen, two popen members, popen+via, socket+installvia} x remote exec models {thread, main_thread_only, gevent-backend} x timeouts {0.5, 2} x terminate issued right after remote_exec or after things settled, under all interleavings with <=1 preemption: terminate(t) returns within rounds*4t+0.5 virtual seconds, the group is empty, every child process started by the initiator has exited, a second terminate is a no-op. 20 real cells (popen x {thread, main_thread_only} x all states + makegateway with a taken id): wall time, len(group), /proc liveness of the child pid, no extra child left behind.",
   note="The virtual process/signal model (SIGSTOP, SIGKILL, kill(), wait(), descriptor closing) is modelled and validated by the real cells. 'Small multiple' = 4 x timeout per exit round, the bound safe_terminate documents."),
 "C15": dict(
   level="exploration", engine="enumlib", design="DESIGN.md section 2, C15",
   technique="exhaustive enumeration of every import and global-scope name load of the shipped source units (symtable), and of the finite matrix bootstrap path x bare interpreter x exec model on real processes",
   text="Static, complete over the shipped text: 136 import statements and 618 global name loads in gateway_base, gateway_base+SocketIO+trailer, gateway_io, rsync_remote and script/socketserver: imports must be standard library (or TYPE_CHECKING / __main__-only / ImportError-guarded with fallback / lazily imported optional exec-model libraries), every global load must be bound in the unit, injected by the documented bootstrap (clientsock, execmodel, socket, channel) or a builtin. Dynamic: {import bootstrap, exec over pipe, exec via proxy with a bare via-gateway (dual import in gateway_io), socket server shipped to a bare via-gateway} x {python3.12 -S -E, python3.11 -S -E -s (+ -I in thorough)} x {thread, main_thread_only}: first program asserts `import execnet` fails remotely; 7 channel programs (echo incl. 80 kB bytes, transferred channel, remote error, thread identity, status) give the same transcript as the import-bootstrapped popen gateway.",
   note="This property is about the interpreter/OS boundary: decided on real interpreters, scheduling not controlled (a deviating cell is re-run once). ssh/vagrant, Python 3.10/3.13 and eventlet are not installed here: not covered."),
 "C16": dict(
   level=MC, design="DESIGN.md section 2, C16",
   technique="stateless model checking of deterministic channel programs on every virtual transport (schedules, sendall splits and short reads within bounds) with a differential oracle against the direct popen transcript; real-process transcript matrix",
   text="8 deterministic channel programs (echo of all item kinds and 70 kB items, all item types, sub-channel transfer in both directions, remote error, initiator-side callback with endmarker, worker-side callback, remote close, remote_status) on virtual {popen, socket+installvia, popen+via} x {thread, main_thread_only, gevent-backend}: under every explored schedule (<=1 preemption, <=1 sendall split / short read) the transcript must equal the direct popen gateway's; ProxyIO.kill / close_write / wait observed on the virtual process table of the proxied process. 76 real cells (popen, popen//python=, socket//installvia, popen//via x thread, main_thread_only; payloads 1 and 65537, 4 MiB in thorough): byte-identical transcripts.",
   note="Only deterministic programs are compared across transports; racy programs are judged on each transport by the C02/C03/C07/C08 oracles. remote_status().execmodel is masked. ssh transports are not available."),
 "C17": dict(
   level="exploration", engine="enumlib", design="DESIGN.md section 2, C17",
   technique="bounded-exhaustive enumeration of source trees x prior target states x flags x working directories x follow-up steps against a reference tree model; protocol run in the virtual world, file operations real",
   text="31 source entry variants (files: 4 contents incl. empty/binary/200 KiB x 4 modes, mtimes, nested; directories: 3 modes, empty, names with space and non-ASCII; symlinks: relative, into a subdir, absolute inside, dangling, absolute outside, '..', upward-outside, from a subdir sideways/upwards/absolute, to a directory) x 4-9 prior target states each (absent, identical, other mtime, other size, same size other content, mode only, read-only, entry of another kind, non-empty dir) x delete x cwd {outside, source root, source subdir} x 1-2 targets x unrelated extra entries x follow-up {none, re-sync unchanged, modify content / mode / kind then re-sync}: 8.5k syncs quick (all ~26k thorough). Oracle: every file byte-, mode- and mtime-equal, directories mode|0o700, symlinks denote the corresponding place resolved from their own location, delete removes everything else, unrelated entries untouched otherwise, each target complete, an unchanged re-sync reports and transfers nothing and changes no metadata.",
   note="Directory mtimes and the size+mtime-equal blind spot are outside the oracle (rsync's quick-check premise); file mtimes compared as st_mtime floats. An absolute link to the source root itself is a recorded known finding."),

 "C06": dict(
   level="exploration", engine="enumlib", design="DESIGN.md section 2, C06",
   technique="bounded-exhaustive enumeration of function shapes against a semantic oracle, of source forms x raise positions in a virtual session, and of a finite stdio configuration matrix on real interpreters",
   text="48 function shapes (parameter kinds, defaults from constants/builtins/globals, body references to locals/builtins/module globals/imported modules/inner imports, inner defs/classes/closures/comprehensions/lambdas, decorated, lambda, methods, nested with and without closure): a function is accepted iff its own dedented source defines and runs it in a fresh namespace, rejection is ValueError with zero bytes written, every accepted function really runs remotely. String / function / module sources in virtual sessions (popen thread + main_thread_only, socket, via): channel and __name__ bound, 57 kwargs values arrive type-exact, remote tracebacks name the original file and line for a raise at each statement, the channel is open while the body blocks and closed when it ends, close() from inside refused. Real processes: print / sys.stdout.write / os.write(1) / os.write(2) / grandchild writing to fd 1, sizes up to 64 KiB (1 MiB thorough), before/between/after channel items, on popen, popen//python= and via: transcript unchanged and gateway receive-live.",
   note="The stdio clause is about fd redirection at the OS boundary and is decided on real interpreters (scheduling not controlled there; a deviating cell is re-run once). Bound methods / builtins passed to remote_exec are treated by the API as source strings and are outside the quantifier."),
 "C08": dict(
   level=MC, design="DESIGN.md section 2, C08",
   technique="exhaustive enumeration of read chunkings through the real IO classes plus stateless model checking of concurrent senders with sendall-split environment choices",
   text="Every message code x channel ids over the full signed 32-bit range x payload lengths: ALL 2^(n-1) compositions of the byte stream into low-level reads for streams <=14 bytes and all chunkings with <=3 boundaries for longer streams / two-message sequences, through Popen2IO.read, SocketIO.read and ProxyIO.read (1.3M decodes) against independent struct framing; to_io writes exactly the reference bytes with one write call on each IO class; 2 concurrent sender threads per side / per channel on virtual popen, socket and via gateways with item sizes 1 and 70000, sendall split inside the header / at the header boundary / inside the payload as environment choice, all interleavings within <=2 preemptions: the peer decodes exactly the frames sent. Real 2 x 6 x 4 MiB confirmation: findings/c08_socket_interleave_real.py.",
   note="BufferedWriter.write atomicity for pipes is trusted (and confirmed empirically); socket sendall is modelled as a loop of partial sends."),
 "C19": dict(
   level="exploration", engine="enumlib", design="DESIGN.md section 2, C19",
   technique="bounded-exhaustive enumeration of strings x item splits x call sequences against io.StringIO / io.BytesIO as reference model; writer operation sequences in virtual sessions",
   text="All strings over {a, b, newline} up to length 4 (5 thorough), as text and as bytes, x all ordered splits into channel items incl. interleaved empty items x all sequences of up to 3 (4) calls over read(0)/read(1)/read(2)/read(7)/readline() followed by three calls past the end (1.07M call sequences quick): results equal those of a file over the concatenation, empty forever after the end. All makefile('w') operation sequences up to length 3-4 over write(str)/write(bytes)/flush/file.close/channel.close x proxyclose on a real channel in a virtual session: one item per write, flush harmless, write after close raises OSError, close closes the channel iff proxyclose; plus reader histories on real channels over popen and via.",
   note="The exhaustive reader runs drive Channel.makefile('r') over a stub receive(); a set of histories over the real Channel binds them to the implementation."),
 "C20": dict(
   level=MC, design="DESIGN.md section 2, C20",
   technique="bounded-exhaustive enumeration of spec strings against a hand-written reference semantics, plus stateless model checking of concurrent makegateway/exit on one group (statement-level preemption in Group)",
   text="All 1-entry specs over keys of length 1-2 and values of length 0-2 from 7-symbol alphabets incl. '=', ':', '/', space, non-ASCII (+ named keys incl. env:NAME forms), 2- and 3-entry specs over reduced sets (36k specs): attributes, True for bare keys, env collection, None for absent names, str/==/!=/hash by text; every repeated-key shape (plain and env:) must raise ValueError; python= splitting into argv. Group ids: two threads calling makegateway with automatic ids, an explicit id that is live, an explicit id equal to the next automatic id, the same explicit id twice, racing with exit() of a member, under all interleavings with <=1 sync / <=2 statement-level preemptions: live ids pairwise distinct at every observation, lookup by id/index/membership agrees with iteration, a failing call leaves no live child process.",
   note="Compositions where '/' touches a '//' separator are outside the quantifier. The bare key 'env' is a recorded known finding. Virtual popen: process start-up is modelled."),

 "C01": dict(
   level="exploration", engine="enumlib", design="DESIGN.md section 2, C01",
   technique="bounded-exhaustive enumeration of the value grammar (small-scope model checking of the input space) against a typed structural-equality oracle; channel clause on a virtual gateway session",
   text="All values up to depth 2 over a 54-element boundary leaf set (ints on both sides of +-2**31, +-2**63, 10**30, 10**4299; float specials incl. -0.0, inf, NaN with payload, denormal; complex; bytes 0..255; str incl. NUL, non-BMP; bool vs int), depth 3 over a 12-leaf representative set, deep nesting, key-order permutations, 70 kB items (46k values): loads(dumps(v)), dump/load over a stream and a channel echo (virtual popen, socket, via) must give a value that is equal with the same type at every position, dict order and float bits preserved. 29 unsupported leaves (foreign types, subclass instances, subclasses whose __name__ collides with a builtin, non-encodable str) x 10 container positions must raise DumpError; on a channel nothing reaches the wire and the channel stays usable.",
   note="Ints beyond CPython's 4300-digit str limit are a recorded known finding. The channel clause is sequential and checked on the default schedule."),
 "C12": dict(
   level="exploration", engine="enumlib", design="DESIGN.md section 2, C12",
   technique="bounded-exhaustive enumeration against an independent reference encoder/decoder for dump format v2 (engine/refcodec.py never imports execnet); cross-interpreter run on python3.11",
   text="dumps(v) is compared byte-for-byte with the reference encoder for the whole C01 value space (45k values); 2200 reference-encoded streams incl. 705 in the Python-2 dialect (PY2STRING/UNICODE/LONG/LONGLONG) are loaded under all 4 coercion settings and compared with the reference decoder; all 256 version bytes; opcode table letter by letter; Channel.reconfigure / Gateway.reconfigure with injected py2-dialect frames in a virtual session; python3.11 dumps what 3.12 loads and vice versa (400 values).",
   note="Python 3.10 and 3.13 are not installed here (not covered). The reference codec is trusted as the statement of format version 2."),
 "C13": dict(
   level="exploration", engine="enumlib", design="DESIGN.md section 2, C13",
   technique="exhaustive enumeration of all byte strings over an opcode alphabet up to a length bound, plus all single-byte substitutions/deletions/insertions and strict prefixes of valid dumps; differential oracle against a strict reference decoder",
   text="ALL 810k..24M byte strings version+w (w over 31 symbols: every opcode, an unknown opcode, boundary bytes; length <=4 quick / <=5 thorough) and every 1-byte substitution, deletion, insertion and strict prefix of ~60 valid dumps (780k inputs): load() must terminate with a value built only from supported builtin types (equal to the reference decoder's value when the dump is valid) or DataFormatError, EOFError only if a read really hit the end of input, no audit event (exec/compile/import/open/subprocess/socket), no Channel object created, no strict prefix accepted.",
   note="NEWLIST counts that the remaining input cannot justify are classified by the reference decoder, not executed, and tracked as known finding c13:newlist-preallocation. Acceptance of inputs the strict reference rejects is counted but is not a violation of the property's letter."),

 "C04": dict(
   level=MC, design="DESIGN.md section 2, C04",
   technique="stateless model checking with exhaustive crash-point enumeration: every byte offset of the peer->survivor stream as cut point (explorer choice) crossed with survivor schedules, on popen / socket / proxied IO classes",
   text="3 base scenarios (bursts of items of sizes 0/5/40/300 on 1-2 channels, 1-2 blocked receivers, waitclose callers, a callback channel with endmarker, an in-flight remote_exec) on virtual popen, socket+installvia and popen+via: the worker process dies after exactly k bytes for EVERY k in 0..N (N = 195..416) on the default survivor schedule (+1 non-default pick at blocking points), and at all frame-boundary / in-header / in-payload offsets crossed with <=1 preemption (statement level for scenario A), read chunking deviations, and for sockets also with ECONNRESET instead of FIN. Oracle recomputed per execution from the bytes actually written: exactly the completely arrived frames are delivered in order, then EOFError for receive and waitclose (unless the channel was closed cleanly before), endmarker exactly once, no hang, afterwards send/remote_exec/newchannel raise OSError and hasreceiver() is False.",
   note="A cut delivers exactly k bytes then EOF and the dying process closes all descriptors at that instant (kernel behaviour, modelled). Real SIGKILL conformance for sockets: findings/c04_socket_waitclose_real.py."),
 "C11": dict(
   level=MC, design="DESIGN.md section 2, C11",
   technique="stateless model checking on a virtual clock: every byte offset of the initiator->worker stream as the initiator's death point x worker activities x exec models x schedules; the 5 s / 10 s escalation ladder runs in virtual time",
   text="10 worker activities (idle, blocked in receive, sleeping loop, yielding busy loop, KeyboardInterrupt-swallowing loop, extra daemon thread, sending, receiving, a second body in a non-main thread, EOFError-swallowing receive loop) x {thread, main_thread_only, gevent-backend} x initiator death at every byte offset of its stream (bootstrap line sampled at its ends and 3 interior points in quick) + close_write only + death while idle, crossed with <=1 preemption on a subset of offsets. Oracle: the worker process has ended within 15.1 virtual seconds; all three rungs (pool shutdown, SIGINT, os._exit) must be observed (vacuity guard).",
   note="Signal delivery, process exit and fd closing are modelled (CPython/POSIX semantics), discrete-event time. Non-daemon user threads and uninterruptible C calls are outside the property."),

 "C14": dict(
   level=MC, design="DESIGN.md section 2, C14",
   technique="stateless model checking: all remote_exec outcome histories (bounded length) on a main_thread_only worker, exhaustive interleavings of receiver and main thread within bounds",
   text="All histories of length <=2 over {return, raise, SystemExit, KeyboardInterrupt, blocked} with sequential or overlapping submission (plus the length-3 histories with a failing middle body or an overlap), each under all interleavings with <=2 sync preemptions / <=1 statement preemption. Oracle: every body runs in the worker's main thread, in submission order, never overlapping; an overlapping submission is refused with the documented deadlock RemoteError without disturbing the earlier body; a submission after the previous channel closed always runs.",
   note="Discrete-event time: the 1 s grace wait never expires while the previous body's thread is runnable (the assumption the code comment makes). Same trusted base as C02."),
 "C18": dict(
   level=MC, design="DESIGN.md section 2, C18",
   technique="stateless model checking of concurrent channel allocation (statement-level preemption inside ChannelFactory) plus bounded-exhaustive transfer histories",
   text="2 threads per side allocating channels (newchannel / remote_exec) concurrently under all interleavings with <=2 sync and <=2 statement-level preemptions: ids distinct, initiator odd / worker even, no cross-connection; a channel transferred bare and in list/tuple/dict/nested/frozenset containers in both directions arrives as a Channel with the same id and carries a 2-item conversation; after m in {2 (explored), 200 (default schedule)} open/transfer/close|drop|error cycles the per-gateway channel tables and remote numchannels are back at their baseline.",
   note="Table sizes are judged at quiescence. gc is disabled during an execution, so reference cycles are not collected (drop = refcount drop). Same trusted base as C02."),

 "C02": dict(
   level=MC, design="DESIGN.md section 2, C02",
   technique="stateless model checking: generated channel programs run on the real Gateway/Channel code over virtual pipes/sockets; exhaustive enumeration of interleavings (sync and statement level) and read chunkings within deviation bounds",
   text="12 generated channel programs (1-2 channels created by remote_exec or newchannel+transfer, 1-2 sender threads per side, receive/iteration/callback receivers, 1-2 receivers) on virtual popen, plus socket and via topologies for core programs; every interleaving of user threads and both receiver threads with <=2 sync preemptions (<=1 statement-level) and <=1 non-default pick at blocking points; oracle: per channel and direction multiset equality, per-sender order, no leakage, no hang.",
   note="Trusted: virtual pipe/socket model (BufferedWriter.write atomic, sendall a loop of partial sends), virtual sync primitives, discrete-event time. Process start-up is modelled, not executed. Bounded schedules and program sizes."),
 "C03": dict(
   level=MC, design="DESIGN.md section 2, C03",
   technique="stateless model checking of send/close histories on the real channel code: exhaustive interleavings within preemption bounds",
   text="Histories: n in {0,2} items then explicit close / end of remote_exec / reference drop with and without callback, both directions, 0-2 receivers and 0-1 waitclose callers, plus simultaneous close from both sides; all interleavings with <=2 sync preemptions / <=1 statement preemption. Oracle: receivers obtain exactly the items in order then EOFError repeatedly, nothing appears after waitclose returned, and once a close was observed (EOFError seen or waitclose returned) isclosed/send/waitclose(0)/second close behave as stated.",
   note="CHANNEL_LAST_MESSAGE (dropped channel with callback) leaves the peer allowed to send by design; the closed-for-good clause is applied only where CHANNEL_CLOSE exists. Same trusted base as C02."),
 "C07": dict(
   level=MC, design="DESIGN.md section 2, C07",
   technique="stateless model checking: failure kind x position x exception type x channel alive/dropped with a sibling channel, exhaustive interleavings within bounds",
   text="Remote body raising after i of n items, worker-side and initiator-side callbacks raising on the i-th item, exception types ValueError/custom class/SystemExit, failing channel alive or dropped, sibling echo channel active; all interleavings with <=1 sync preemption and <=1 statement preemption. Oracle: peer gets earlier items then exactly one RemoteError with type, message and the raising line, then EOFError; failing side's waitclose raises a proper exception; sibling undisturbed; gateway still receiving and a fresh remote_exec round-trips.",
   note="A callback that raises synchronously inside setcallback (already queued item) propagates to the caller and is outside the quantifier. For a dropped channel the peer may see plain EOF (LAST_MESSAGE precedes the error); the error must then be warned about."),
 "C10": dict(
   level=MC, design="DESIGN.md section 2, C10",
   technique="stateless model checking of setcallback against the receiver thread: exhaustive interleavings (sync and statement level) within bounds",
   text="setcallback issued at any moment relative to item delivery (schedule choice, plus a delayed variant where everything has arrived), after 0-1 items were taken with receive(), with and without endmarker; endings: explicit close, end of exec, remote error, worker killed (connection loss), gateway exit, still open; MultiChannel.make_receive_queue over two gateways. Bounds: <=2 sync preemptions, <=2 statement preemptions. Oracle: callback sequence == remaining items in order, endmarker exactly once and last iff requested and the conversation ended, receive() and a second setcallback refused.",
   note="Histories use receive() or the callback at a time, not both concurrently. Same trusted base as C02."),
 "C09": dict(
   level=MC, design="DESIGN.md section 2, C09",
   technique="stateless model checking of the real WorkerPool under a controlled scheduler: exhaustive enumeration of thread interleavings within preemption/deviation bounds (sync-level and statement-level)",
   text="Every interleaving of the real WorkerPool code (1-2 spawners, integrated primary thread, trigger_shutdown/terminate, waitall and Reply.get callers; pools with/without primary, thread and main_thread_only) with <=2 sync-level preemptions, <=1 statement-level preemption and <=2 non-default picks at blocking points is executed and checked against an exactly-once / truthful-report oracle; plus the end-to-end remote_exec-then-terminate session. Thorough raises the bounds (3/2/3) and adds 3-spawner configurations.",
   note="Trusted: the virtual Lock/Event/Queue semantics (engine selftest), discrete-event time, statement (not bytecode) preemption granularity. Bounded: schedules outside the deviation bounds are not explored."),
}

# coverage added by the seeded waves (DESIGN 9.5), appended to each check's own words
EXTRA = {
 "C02": "Read chunking (short reads, partial sends) as environment choices also on the socket and via transports.",
 "C03": "The same endings while another thread of the closing process is inside _send on another channel (explicit close / drop / drop with callback, both directions).",
 "C04": "Base scenario E: a callback that fails on its endmarker sits on the channel with the lowest id while a receiver and a waitclose caller block on a later channel.",
 "C05": "Remote state 'nondaemon' (a non-daemon thread outlives its task: connection closed, process alive) in the virtual process model and as a real cell.",
 "C06": "Tracebacks of functions raising 0 / 5 / 45 / 200 calls deep must still name the raising line.",
 "C07": "Every failure kind also under gateway.reconfigure(py3str_as_py2str / py2str_as_py3str); callbacks failing on their ENDMARKER on either side (gateway and sibling stay up, own channel carries the error).",
 "C09": "Task kinds raising SystemExit / a BaseException subclass.",
 "C10": "Every falsy endmarker value (None, 0, False, '') for setcallback and MultiChannel.make_receive_queue.",
 "C11": "5 more worker activities describing channel state at the moment of death: callback on a dropped channel, on a held channel, two dropped callback channels, a callback failing on its endmarker, several open channels.",
 "C12": "All module-level API call histories (dumps/loads/dump/load, succeeding and failing) up to depth 2 (3 thorough) against the reference codec; two threads inside dumps()/dump() preempted at every serializer statement.",
 "C13": "Length-prefixed payloads of 13 size classes (0 .. 200001 bytes; 1 MiB+1 and 4 MiB+3 thorough) for BYTES / PY3STRING / PY2STRING / UNICODE at root / in a list / as dict key / in a set / in a tuple, whole and cut inside the payload.",
 "C15": "Worker IO-encoding / locale cells (PYTHONIOENCODING=ascii, latin-1; C locale without coercion or UTF-8 mode) for import, exec and via bootstrap.",
 "C16": "The cyclic garbage collector as an environment choice at every statement of the sending path (a cyclic-garbage channel of the same gateway is finalized from inside _send) for 1-byte and 70 kB echo programs on every transport.",
 "C18": "remote_exec calls that fail after their id was allocated (unserialisable kwargs) racing with allocations of another thread; ids handed out afterwards must be fresh.",
 "C19": "A thread reading to the end through makefile('r') and writing through makefile('w') at once, under sync- and statement-level preemption of the receiver thread (write must raise OSError once the end was observed).",
 "C20": "All makegateway(id=a / id=b / automatic) / exit histories up to depth 5 (6 thorough) against a list model: iteration order, lookup by index / id / object and membership for every gateway object ever created (ids reused after exit, repeated exits).",
}
for pid, extra in EXTRA.items():
    CHECKS[pid]["text"] = CHECKS[pid]["text"].rstrip() + " Also: " + extra
EXTRA2 = {'C01': 'Every class of lone surrogate (first/last high, first low, both sides of U+DC80..U+DCFF, reversed pair) must be refused with DumpError in every container position and over the channel.', 'C02': 'The cyclic garbage collector as an environment choice on the sending path (a finalizer of another channel sends from inside _send), small and 70 kB items, all transports.', 'C03': "Late-close histories: the peer ended its side first (close / drop / drop with callback / gateway exit), then this side closes: isclosed, send -> OSError, second close no-op, the peer's callback gets its endmarker.", 'C04': "Base scenario F: the callback channel's handle was dropped before the cut.", 'C05': "Members exit()ed before terminate() (term-after-exit histories on every topology); a real cell for execnet's own atexit hook (known finding on Python >= 3.12).", 'C06': '8 more shapes whose outer code object names only builtins and locals (the global is used from an inner def / lambda / generator / class body / default / keyword default).', 'C10': 'Histories in which the callback itself raises on the first / second item (the endmarker still comes exactly once, nothing after it).', 'C11': 'Workers with a history (1-2 bodies ran to completion before the activity).', 'C15': 'The same spec string used again in one process: by a group with another remote exec model and twice by one group (exec model and id of every worker).', 'C16': 'ProxyIO.wait() on a proxied process that lingers 0.5 .. 120 virtual seconds on a non-daemon thread.', 'C17': "Entry names beginning with a dot (hidden files, '..data' directories) as entries and as absolute / relative link targets.", 'C18': 'Callback conversations ended by the callback failing while the peer keeps its end and goes on sending; a collection of a cyclic-garbage channel at any statement of another conversation.'}
for pid, extra in EXTRA2.items():
    CHECKS[pid]["text"] = CHECKS[pid]["text"].rstrip() + (" " if pid in EXTRA else " Also: ") + extra

EXTRA3 = {'C02': 'Two programs preempted at every statement of the serializer / unserializer (nothing may leak between concurrent sends).', 'C03': 'A close() that fails (unserialisable error object) must leave the channel consistently open or closed; a later plain close() ends the conversation for the peer.', 'C05': 'Thread-start faults during makegateway and a child that is not a Python interpreter (failed bootstrap leaves no process); the via-gateway itself dead / stopped (two known findings).', 'C06': "Non-ASCII output under PYTHONIOENCODING=ascii and the C locale; remote code, a thread and a child process reading the worker's standard input.", 'C07': 'Remote bodies raising BaseException-only classes (custom, GeneratorExit).', 'C08': 'Real popen / python= / via cells in which a thread or child process of the worker reads its standard input while frames of every size class (0 .. 300 kB, 4 MiB thorough) are echoed.', 'C09': "Environment fault 'the interpreter refuses to start a thread' (one fault per execution): a refused task never runs and waitall stays truthful.", 'C10': "Ending 'the remote body raises EOFError'.", 'C11': "'Flood' activities: 100 .. 1500 (5000 thorough) items piled up on a channel of a sleeping / busy / interrupt-swallowing body (virtual queues honour maxsize).", 'C12': "Ints beyond the interpreter's digit limit: dumps may refuse them, but whatever it emits must be decimal text.", 'C13': 'Nesting-depth classes 1 .. 200000 (1000000 thorough) for tuples / lists / frozensets as values, set members and dict keys, run in a child process so that an interpreter crash is an observation.', 'C14': "The worker's start-up (serve) explored against the first remote_exec.", 'C15': 'via= without python= through a forwarder that has no execnet.', 'C16': '1 MiB + 1 echo cells on real processes.'}
for pid, extra in EXTRA3.items():
    CHECKS[pid]["text"] = CHECKS[pid]["text"].rstrip() + " " + extra

EXTRA4 = {'C01': 'Pipelined batches on every transport (a value just above 64 KiB / 200 kB with small values right behind it).', 'C03': 'Close histories with a 70 kB frame of another channel in flight and the collector as an environment choice.', 'C04': 'Base G: a callback failing on an item while the peer dies.', 'C05': 'One more frame for a gateway after its exit() (late-frame variants).', 'C07': 'The failure arrived but was consumed only after the connection was lost (crash-after-error); a failure whose text is not UTF-8 encodable.', 'C10': "setcallback only after the conversation is over, followed by close() and the gateway's end.", 'C13': 'Two concurrent loads() preempted at every unserializer statement.', 'C14': 'A body submitted while a short one still runs (admitted afterwards) followed by an overlap that must be refused.', 'C15': 'Source bootstrap over a virtual pipe of ordinary capacity whose raw writes are short.', 'C16': "Program 'peer-dies' (the worker kills itself mid-conversation with a second channel open) on every transport, virtual and real.", 'C18': "Callback conversations ended by the dropped handle making the body's receive() raise EOFError.", 'C20': "The operation 'iterate over the group and exit every member met' in the call histories."}
for pid, extra in EXTRA4.items():
    CHECKS[pid]["text"] = CHECKS[pid]["text"].rstrip() + " " + extra

checks = []
for pid, c in CHECKS.items():
    checks.append({
        "property_id": pid,
        "quick_cmd": f"./vcheck {pid} --tier quick",
        "thorough_cmd": f"./vcheck {pid} --tier thorough",
        "evidence_file": f"/verif/evidence/{pid}.json",
        "replay_cmd_template": f"./vcheck {pid} --replay {{path}}",
        "engine": c.get("engine", "vworld-explorer"),
        "level_claimed": {"category": c["level"], "text": c["text"], "design_ref": c["design"]},
        "level_note": c["note"],
        "technique": c["technique"],
    })
NA_REASON = "not claimed"
m = {
 "version": 1,
 "setup_cmd": "./setup.sh",
 "hooks": {
   "guard": "EXECNET_VERIF",
   "enable": "no source hooks are needed: checks load /repo/src/execnet through an AST-instrumenting import loader (engine/instrument.py) that inserts scheduling points at load time; EXECNET_VERIF=1 is exported by ./vcheck for documentation only",
   "baseline_off_cmd": "cd /repo && /venv/bin/python -m pytest -ra -q -p no:cacheprovider --timeout=900 --continue-on-collection-errors",
   "source_commits": [],
   "add_only": True,
 },
 "engines": [
   {"name": "vworld-explorer", "path": "engine/vworld.py engine/explorer.py engine/instrument.py engine/vsocket.py",
    "serves_properties": sorted(p for p, c in CHECKS.items() if c.get("engine", "vworld-explorer") == "vworld-explorer"),
    "kind_free_text": "stateless deviation-bounded model checker: the unmodified execnet classes run on a virtual ExecModel (greenlet threads, virtual locks/events/queues/pipes/sockets/processes/clock); every schedule and environment choice is enumerated by DFS over choice sequences"},
   {"name": "enumlib", "path": "engine/enumlib.py engine/refcodec.py",
    "serves_properties": sorted(p for p, c in CHECKS.items() if c.get("engine") == "enumlib"),
    "kind_free_text": "bounded-exhaustive enumeration of inputs / operation sequences against independent reference models"},
 ],
 "checks": checks,
 "not_applicable": [{"property_id": p["id"], "reason": NA_REASON} for p in props if p["id"] not in CHECKS],
 "notes": "All checks run /repo/src through the instrumenting loader and assert execnet.__file__ is under /repo/src. Exit codes: 0 held, 1 VIOLATION, 2 internal error of the machinery.",
}
json.dump(m, open(os.path.join(HERE, "MANIFEST.json"), "w"), indent=1)
print("checks:", len(checks), "not_applicable:", len(m["not_applicable"]))
