#!/usr/bin/env python3
"""regenerates MANIFEST.json from the table below (kept valid at all times)"""
import json, os
HERE = os.path.dirname(os.path.abspath(__file__))
props = [json.loads(l) for l in open(os.path.join(HERE, "properties.jsonl"))]

MC = "model_checking"
CHECKS = {
 "C09": dict(
   level=MC, design="DESIGN.md section 2, C09",
   technique="stateless model checking of the real WorkerPool under a controlled scheduler: exhaustive enumeration of thread interleavings within preemption/deviation bounds (sync-level and statement-level)",
   text="Every interleaving of the real WorkerPool code (1-2 spawners, integrated primary thread, trigger_shutdown/terminate, waitall and Reply.get callers; pools with/without primary, thread and main_thread_only) with <=2 sync-level preemptions, <=1 statement-level preemption and <=2 non-default picks at blocking points is executed and checked against an exactly-once / truthful-report oracle; plus the end-to-end remote_exec-then-terminate session. Thorough raises the bounds (3/2/3) and adds 3-spawner configurations.",
   note="Trusted: the virtual Lock/Event/Queue semantics (engine selftest), discrete-event time, statement (not bytecode) preemption granularity. Bounded: schedules outside the deviation bounds are not explored."),
}

checks = []
for pid, c in CHECKS.items():
    checks.append({
        "property_id": pid,
        "quick_cmd": f"./vcheck {pid} --tier quick",
        "thorough_cmd": f"./vcheck {pid} --tier thorough",
        "evidence_file": f"/verif/evidence/{pid}.json",
        "replay_cmd_template": f"./vcheck {pid} --replay {{path}}",
        "engine": c.get("engine", "vworld-explorer"),
        "level_claimed": {"category": c["level"], "text": c["text"], "design_ref": c["design"]},
        "level_note": c["note"],
        "technique": c["technique"],
    })
NA_REASON = "check not built yet in this session (work in progress, see DESIGN.md section 8)"
m = {
 "version": 1,
 "setup_cmd": "./setup.sh",
 "hooks": {
   "guard": "EXECNET_VERIF",
   "enable": "no source hooks are needed: checks load /repo/src/execnet through an AST-instrumenting import loader (engine/instrument.py) that inserts scheduling points at load time; EXECNET_VERIF=1 is exported by ./vcheck for documentation only",
   "baseline_off_cmd": "cd /repo && /venv/bin/python -m pytest -ra -q -p no:cacheprovider --timeout=900 --continue-on-collection-errors",
   "source_commits": [],
   "add_only": True,
 },
 "engines": [
   {"name": "vworld-explorer", "path": "engine/vworld.py engine/explorer.py engine/instrument.py engine/vsocket.py",
    "serves_properties": sorted(p for p, c in CHECKS.items() if c.get("engine", "vworld-explorer") == "vworld-explorer"),
    "kind_free_text": "stateless deviation-bounded model checker: the unmodified execnet classes run on a virtual ExecModel (greenlet threads, virtual locks/events/queues/pipes/sockets/processes/clock); every schedule and environment choice is enumerated by DFS over choice sequences"},
   {"name": "enumlib", "path": "engine/enumlib.py engine/refcodec.py",
    "serves_properties": sorted(p for p, c in CHECKS.items() if c.get("engine") == "enumlib"),
    "kind_free_text": "bounded-exhaustive enumeration of inputs / operation sequences against independent reference models"},
 ],
 "checks": checks,
 "not_applicable": [{"property_id": p["id"], "reason": NA_REASON} for p in props if p["id"] not in CHECKS],
 "notes": "All checks run /repo/src through the instrumenting loader and assert execnet.__file__ is under /repo/src. Exit codes: 0 held, 1 VIOLATION, 2 internal error of the machinery.",
}
json.dump(m, open(os.path.join(HERE, "MANIFEST.json"), "w"), indent=1)
print("checks:", len(checks), "not_applicable:", len(m["not_applicable"]))
