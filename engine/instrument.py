"""AST-instrumenting import loader for /repo/src/execnet.

Every module ``execnet`` / ``execnet.*`` is loaded from ``SRC`` (default
/repo/src), parsed, and a call ``__vp__(K)`` is inserted before every statement
that lives inside a function body.  ``K`` indexes ``POINTS`` (file, qualname,
lineno).  The module is compiled under its original file name, so
``inspect.getsource`` / tracebacks / ``linecache`` show the original text.

``__vp__`` lives in ``builtins`` so it resolves from every namespace; by default
it is a no-op, ``vworld`` rebinds ``HOOK[0]``.
"""

from __future__ import annotations

import ast
import builtins
import importlib.abc
import importlib.util
import os
import sys

SRC = os.environ.get("EXECNET_VERIF_SRC", "/repo/src")

POINTS: list[tuple[str, str, int]] = []  # K -> (module basename, qualname, lineno)
_POINT_INDEX: dict[tuple[str, str, int], int] = {}

# functions whose statements are not preemption points in the DEFAULT mask: they are
# meant to touch only objects local to the calling thread (serializer/unserializer
# instances, Message objects, tracing) -- see DESIGN 1.1.  They ARE instrumented, so a
# check can select them explicitly (C01 does, to catch state leaking out of them).
EXCLUDE_PREFIXES = (
    "_Serializer.",
    "Unserializer.",
    "opcode",
    "trace",
    "notrace",
    "geterrortext",
    "RemoteError.",
    "ExecModel.",
    "ThreadExecModel.",
    "MainThreadOnlyExecModel.",
    "GeventExecModel.",
    "EventletExecModel.",
    "get_execmodel",
    "bchr",
    "XSpec.",
    "RInfo.",
    "_find_non_builtin_globals",
    "_source_of_function",
)
EXCLUDE_EXACT = {
    "dumps",
    "dump",
    "loads",
    "load",
    "loads_internal",
    "dumps_internal",
    "Message.__init__",
    "Message.__repr__",
    "BaseGateway._trace",
    "Channel._trace",
    "Channel.__repr__",
    "Gateway.__repr__",
}
KEEP_EXACT = {"Unserializer.load_channel"}


def _noop(k: int) -> None:
    return None


HOOK = [_noop]


def __vp__(k: int) -> None:
    HOOK[0](k)


builtins.__vp__ = __vp__  # type: ignore[attr-defined]


def _excluded(qual: str) -> bool:
    if qual in KEEP_EXACT:
        return False
    if qual in EXCLUDE_EXACT:
        return True
    return any(qual.startswith(p) for p in EXCLUDE_PREFIXES)


class _Transformer(ast.NodeTransformer):
    def __init__(self, modname: str) -> None:
        self.modname = modname
        self.stack: list[str] = []
        self.infunc = 0

    def _point(self, node: ast.stmt) -> ast.stmt:
        qual = ".".join(self.stack)
        key = (self.modname, qual, node.lineno)
        k = _POINT_INDEX.get(key)
        if k is None:
            k = len(POINTS)
            POINTS.append(key)
            _POINT_INDEX[key] = k
        call = ast.Expr(
            value=ast.Call(
                func=ast.Name(id="__vp__", ctx=ast.Load()),
                args=[ast.Constant(value=k)],
                keywords=[],
            )
        )
        return ast.copy_location(call, node)

    def _body(self, body: list[ast.stmt], docstring_ok: bool = False) -> list[ast.stmt]:
        out: list[ast.stmt] = []
        for i, st in enumerate(body):
            st = self.visit(st)
            if self.infunc:
                is_doc = (
                    i == 0
                    and docstring_ok
                    and isinstance(st, ast.Expr)
                    and isinstance(st.value, ast.Constant)
                    and isinstance(st.value.value, str)
                )
                if not is_doc and not isinstance(
                    st, (ast.Global, ast.Nonlocal, ast.Pass, ast.Import, ast.ImportFrom)
                ):
                    out.append(self._point(st))
            out.append(st)
        return out

    def _visit_func(self, node):
        self.stack.append(node.name)
        self.infunc += 1
        node.body = self._body(node.body, docstring_ok=True)
        self.infunc -= 1
        self.stack.pop()
        return node

    visit_FunctionDef = _visit_func
    visit_AsyncFunctionDef = _visit_func

    def visit_ClassDef(self, node):
        self.stack.append(node.name)
        saved = self.infunc
        self.infunc = 0
        node.body = [self.visit(st) for st in node.body]
        self.infunc = saved
        self.stack.pop()
        return node

    def generic_visit(self, node):
        for field in ("body", "orelse", "finalbody"):
            val = getattr(node, field, None)
            if isinstance(val, list) and val and isinstance(val[0], ast.stmt):
                setattr(node, field, self._body(val))
        if isinstance(node, ast.Try) or (
            hasattr(ast, "TryStar") and isinstance(node, ast.TryStar)
        ):
            for h in node.handlers:
                h.body = self._body(h.body)
        if isinstance(node, ast.Match):
            for c in node.cases:
                c.body = self._body(c.body)
        return node

    def visit_Module(self, node):
        node.body = [self.visit(st) for st in node.body]
        return node

    def visit_If(self, node):
        return self.generic_visit(node)


def instrument_source(source: str, filename: str, modname: str):
    tree = ast.parse(source, filename)
    tree = _Transformer(modname).visit(tree)
    ast.fix_missing_locations(tree)
    return compile(tree, filename, "exec", dont_inherit=True)


class _Loader(importlib.abc.Loader):
    def __init__(self, fullname: str, path: str, is_pkg: bool) -> None:
        self.fullname = fullname
        self.path = path
        self.is_pkg = is_pkg

    def create_module(self, spec):
        return None

    def get_source(self, fullname: str) -> str:
        with open(self.path, encoding="utf-8") as f:
            return f.read()

    def get_filename(self, fullname: str) -> str:
        return self.path

    def exec_module(self, module) -> None:
        source = self.get_source(self.fullname)
        short = self.fullname.split(".", 1)[1] if "." in self.fullname else "__init__"
        code = instrument_source(source, self.path, short)
        exec(code, module.__dict__)


class _Finder(importlib.abc.MetaPathFinder):
    def find_spec(self, fullname, path=None, target=None):
        if fullname != "execnet" and not fullname.startswith("execnet."):
            return None
        rel = fullname.split(".")
        base = os.path.join(SRC, *rel)
        if os.path.isdir(base) and os.path.exists(os.path.join(base, "__init__.py")):
            p = os.path.join(base, "__init__.py")
            loader = _Loader(fullname, p, True)
            return importlib.util.spec_from_file_location(
                fullname, p, loader=loader, submodule_search_locations=[base]
            )
        p = base + ".py"
        if os.path.exists(p):
            loader = _Loader(fullname, p, False)
            return importlib.util.spec_from_file_location(fullname, p, loader=loader)
        return None


_installed = False


def install() -> None:
    """Install the finder (idempotent) and make sure no foreign execnet is loaded."""
    global _installed
    if _installed:
        return
    for name in list(sys.modules):
        if name == "execnet" or name.startswith("execnet."):
            raise RuntimeError("execnet imported before instrument.install(): " + name)
    sys.meta_path.insert(0, _Finder())
    if SRC not in sys.path:
        sys.path.insert(0, SRC)
    os.environ["PYTHONPATH"] = SRC
    _installed = True
    import execnet  # noqa: F401

    assert execnet.__file__.startswith(SRC), execnet.__file__


def point_name(k: int) -> str:
    m, q, l = POINTS[k]
    return f"{m}:{q}:{l}"


def select(pred) -> bytearray:
    """mask over POINTS: 1 where pred(module, qualname, lineno)"""
    return bytearray(1 if pred(*p) else 0 for p in POINTS)


def default_pred(m, q, l) -> bool:
    return not _excluded(q)
