"""CLI: python -m engine.main <Cxx> [--tier quick|thorough] [--replay file]"""

from __future__ import annotations

import argparse
import importlib
import os
import pkgutil
import sys
import traceback


def find_check(pid: str):
    import checks

    for m in pkgutil.iter_modules(checks.__path__):
        if m.name.lower().startswith(pid.lower() + "_") or m.name.lower() == pid.lower():
            return importlib.import_module("checks." + m.name)
    raise SystemExit(f"no check module for {pid}")


def main() -> int:
    ap = argparse.ArgumentParser()
    ap.add_argument("pid")
    ap.add_argument("--tier", default=os.environ.get("VERIF_TIER", "quick"), choices=["quick", "thorough"])
    ap.add_argument("--replay")
    ap.add_argument("--only", help="run only the named sub-check (debugging; evidence is partial)")
    a = ap.parse_args()
    from engine import vworld

    vworld.setup()
    mod = find_check(a.pid)
    try:
        if a.replay:
            return mod.replay(a.replay)
        return mod.run(a.tier, only=a.only)
    except vworld.InternalError:
        traceback.print_exc()
        return 2


if __name__ == "__main__":
    sys.exit(main())
