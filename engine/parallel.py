"""fork-based map over chunks for enumeration checks"""

from __future__ import annotations

import multiprocessing as mp
import os

_FN = {}


def _call(args):
    key, chunk = args
    return _FN[key](chunk)


def pmap(fn, chunks, procs=None):
    """fn(chunk) -> result; fn may be a closure (fork inherits it)"""
    procs = procs or min(16, os.cpu_count() or 1)
    chunks = list(chunks)
    if procs == 1 or len(chunks) <= 1:
        return [fn(c) for c in chunks]
    key = id(fn)
    _FN[key] = fn
    try:
        with mp.get_context("fork").Pool(procs) as pool:
            return pool.map(_call, [(key, c) for c in chunks], chunksize=1)
    finally:
        _FN.pop(key, None)
