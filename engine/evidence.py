"""evidence/<id>.json writer, known-findings filter, violation artefacts"""

from __future__ import annotations

import json
import os
import sys
import time
from hashlib import blake2b

ROOT = os.path.dirname(os.path.dirname(os.path.abspath(__file__)))
EVID = os.path.join(ROOT, "evidence")
REPLAYS = os.path.join(ROOT, "replays")
KNOWN = os.path.join(ROOT, "known_findings.jsonl")


def seed() -> int:
    try:
        return int(os.environ.get("VERIF_SEED", "0"))
    except ValueError:
        return 0


def load_known(pid: str) -> list[dict]:
    out = []
    if os.path.exists(KNOWN):
        for line in open(KNOWN):
            line = line.strip()
            if not line or line.startswith("#"):
                continue
            d = json.loads(line)
            if d.get("property") == pid and d.get("status") == "known":
                out.append(d)
    return out


def write_replay(pid: str, payload: dict) -> str:
    os.makedirs(REPLAYS, exist_ok=True)
    blob = json.dumps(payload, sort_keys=True, default=repr)
    h = blake2b(blob.encode(), digest_size=5).hexdigest()
    path = os.path.join(REPLAYS, f"{pid}-{h}.json")
    with open(path, "w") as f:
        f.write(blob)
    return path


class Report:
    """collects sub-check results for one property and writes the evidence file"""

    def __init__(self, pid: str, tier: str, level: str) -> None:
        self.pid = pid
        self.tier = tier
        self.level = level
        self.t0 = time.time()
        self.cov: dict = {
            "evaluations": 0,
            "distinct_nontrivial": 0,
            "states": 0,
            "transitions": 0,
            "traces_validated_against_impl": 0,
            "samples": [],
            "parts": {},
            "exhaustive": True,
            "caps_hit": [],
        }
        self.rule: list[str] = []
        self.assumptions: list[str] = []
        self.violations: list[tuple[str, str]] = []  # (key, replay path)
        self.known_hits: list[str] = []
        self.known = load_known(pid)
        self.internal: list[str] = []
        self.dup: dict = {}

    # -- exploration results ------------------------------------------
    @staticmethod
    def _short(x, limit: int = 240):
        """evidence stays small: long strings (70 kB transcripts ...) are cut, containers walked"""
        if isinstance(x, str):
            return x if len(x) <= limit else x[: limit - 40] + f"...(+{len(x) - limit + 40} chars)"
        if isinstance(x, bytes):
            return Report._short(repr(x), limit)
        if isinstance(x, dict):
            return {Report._short(k if isinstance(k, str) else repr(k), 80): Report._short(v, limit) for k, v in list(x.items())[:40]}
        if isinstance(x, (list, tuple)):
            return [Report._short(v, limit) for v in list(x)[:40]]
        return x

    def add_exploration(self, name: str, st, bounds: dict, params_desc=None, min_outcomes: int = 0) -> None:
        c = self.cov
        c["evaluations"] += st.execs
        c["distinct_nontrivial"] += len(st.nontrivial)
        c["states"] += len(st.states)
        c["transitions"] += len(st.transitions)
        c["traces_validated_against_impl"] += st.execs
        part = {
            "executions": st.execs,
            "states": len(st.states),
            "transitions": len(st.transitions),
            "bounds": {k: v for k, v in bounds.items()},
            "distinct_outcomes": len(st.outcomes),
            "outcomes": {self._short(str(k)): v for k, v in st.outcomes.most_common(12)},
            "max_choice_points": st.max_points,
            "max_steps": st.max_steps,
            "horizon_capped_executions": st.capped,
            "budget_hit": st.budget_hit,
            "exec_digest": "%016x" % st.exec_digest,
        }
        if params_desc is not None:
            part["params"] = self._short(params_desc)
        c["parts"][name] = part
        if st.budget_hit or st.capped:
            c["exhaustive"] = False
            c["caps_hit"].append(name)
        if min_outcomes and len(st.outcomes) < min_outcomes and not st.violations:
            self.internal.append(
                f"vacuity guard: {name} produced {len(st.outcomes)} distinct outcomes, expected >= {min_outcomes}: {dict(st.outcomes)}"
            )

    def add_enumeration(self, name: str, evaluations: int, nontrivial: int, desc=None, exhaustive: bool = True) -> None:
        c = self.cov
        c["evaluations"] += evaluations
        c["distinct_nontrivial"] += nontrivial
        c["parts"][name] = {"evaluations": evaluations, "distinct_nontrivial": nontrivial, **(desc or {})}
        if not exhaustive:
            c["exhaustive"] = False
            c["caps_hit"].append(name)

    def sample(self, s) -> None:
        if len(self.cov["samples"]) < 12:
            self.cov["samples"].append(self._short(s))

    # -- violations ----------------------------------------------------
    def violation(self, key: str, message: str, payload: dict) -> None:
        """key: stable identification of *what* fails (matched against known findings)"""
        for k in self.known:
            if k["key"] == key:
                if key not in self.known_hits:
                    self.known_hits.append(key)
                    print(f"KNOWN-FINDING: property={self.pid} {k.get('what', key)}")
                return
        if any(k == key for k, _ in self.violations):
            self.dup[key] = self.dup.get(key, 0) + 1
            return
        payload = dict(payload)
        payload.update({"property": self.pid, "key": key, "message": message})
        path = write_replay(self.pid, payload)
        self.violations.append((key, path))
        print(f"VIOLATION property={self.pid} replay={path}")
        print("  " + message.replace("\n", "\n  ")[:3000])

    # -- finish --------------------------------------------------------
    def finish(self) -> int:
        c = self.cov
        c["rule"] = " | ".join(self.rule)
        c["known_findings_hit"] = self.known_hits
        if not c["samples"]:
            c["samples"] = ["(none)"]
        if self.level != "model_checking" or not c["states"] or not c["transitions"]:
            for k in ("states", "transitions", "traces_validated_against_impl"):
                if not c[k]:
                    del c[k]
        ev = {
            "property_id": self.pid,
            "tier": self.tier,
            "seed": seed(),
            "level": self.level,
            "coverage": c,
            "assumptions": self.assumptions,
            "wall_s": round(time.time() - self.t0, 2),
            "violations": len(self.violations),
        }
        os.makedirs(EVID, exist_ok=True)
        text = json.dumps(ev, indent=1, default=repr)
        if len(text) > 1_500_000:
            print(f"warning: evidence file of {self.pid} is {len(text)} bytes", file=sys.stderr)
        with open(os.path.join(EVID, f"{self.pid}.json"), "w") as f:
            f.write(text)
        for k, n in self.dup.items():
            print(f"  (+{n} more violations with key {k})")
        if self.internal:
            for m in self.internal:
                print("INTERNAL-ERROR:", m, file=sys.stderr)
            if not self.violations:
                return 2
            # a real violation was found: vacuity guards and the like are secondary
        print(
            f"{self.pid} {self.tier}: evaluations={c['evaluations']} states={c.get('states', 0)} "
            f"transitions={c.get('transitions', 0)} violations={len(self.violations)} known={len(self.known_hits)} "
            f"exhaustive={c['exhaustive']} wall={ev['wall_s']}s"
        )
        return 1 if self.violations else 0
