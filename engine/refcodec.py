"""Independent reference encoder / decoder for execnet dump format version 2.

Written from the format description (one opcode letter per type, big-endian 4-byte
lengths and small ints, decimal text for big ints, IEEE-754 big-endian doubles,
post-order containers, STOP terminator).  Never imports execnet.
"""

from __future__ import annotations

import struct

VERSION = b"\x02"

# the opcode table, letter by letter
OPCODES = {
    "BUILDTUPLE": b"@",
    "BYTES": b"A",
    "CHANNEL": b"B",
    "FALSE": b"C",
    "FLOAT": b"D",
    "FROZENSET": b"E",
    "INT": b"F",
    "LONG": b"G",
    "LONGINT": b"H",
    "LONGLONG": b"I",
    "NEWDICT": b"J",
    "NEWLIST": b"K",
    "NONE": b"L",
    "PY2STRING": b"M",
    "PY3STRING": b"N",
    "SET": b"O",
    "SETITEM": b"P",
    "STOP": b"Q",
    "TRUE": b"R",
    "UNICODE": b"S",
    "COMPLEX": b"T",
}
O = OPCODES
INT_MIN, INT_MAX = -(2**31), 2**31 - 1


class RefError(Exception):
    """the byte string is not a valid dump"""


class RefEOF(RefError):
    """the byte string ends early"""


class RefPrealloc(RefError):
    """a NEWLIST count larger than the remaining input could justify"""


class Py2Str:
    """marks a value to be encoded with the Python-2 str opcode (legacy dialect)"""

    def __init__(self, b: bytes) -> None:
        self.b = b


class Py2Unicode:
    def __init__(self, s: str) -> None:
        self.s = s


class Py2Long:
    def __init__(self, i: int) -> None:
        self.i = i


def _i4(n: int) -> bytes:
    return struct.pack("!i", n)


def int_to_decimal(i: int) -> bytes:
    """decimal text without relying on str(int) (which is limited to 4300 digits)"""
    if i == 0:
        return b"0"
    neg = i < 0
    i = abs(i)
    chunks = []
    base = 10**1000
    while i:
        i, r = divmod(i, base)
        chunks.append(r)
    out = [str(chunks[-1])]
    for r in reversed(chunks[:-1]):
        out.append(str(r).rjust(1000, "0"))
    s = "".join(out)
    return (("-" if neg else "") + s).encode("ascii")


def decimal_to_int(b: bytes) -> int:
    """accepts what int() accepts for decimal text: surrounding ASCII whitespace, a sign,
    digits with single underscores between them"""
    s = b.decode("ascii").strip(" \t\n\r\x0b\x0c")
    neg = s.startswith("-")
    if neg or s.startswith("+"):
        s = s[1:]
    if not s or s[0] == "_" or s[-1] == "_" or "__" in s:
        raise RefError("bad decimal text")
    s = s.replace("_", "")
    if not s or not all("0" <= c <= "9" for c in s):
        raise RefError("bad decimal text")
    v = 0
    for i in range(0, len(s), 1000):
        part = s[i : i + 1000]
        v = v * 10 ** len(part) + int(part)
    return -v if neg else v


def encode_body(v, out: list) -> None:
    t = type(v)
    if v is None:
        out.append(O["NONE"])
    elif t is bool:
        out.append(O["TRUE"] if v else O["FALSE"])
    elif t is int:
        if INT_MIN <= v <= INT_MAX:
            out.append(O["INT"] + _i4(v))
        else:
            d = int_to_decimal(v)
            out.append(O["LONGINT"] + _i4(len(d)) + d)
    elif t is Py2Long:
        if INT_MIN <= v.i <= INT_MAX:
            out.append(O["LONG"] + _i4(v.i))
        else:
            d = int_to_decimal(v.i)
            out.append(O["LONGLONG"] + _i4(len(d)) + d)
    elif t is float:
        out.append(O["FLOAT"] + struct.pack("!d", v))
    elif t is complex:
        out.append(O["COMPLEX"] + struct.pack("!dd", v.real, v.imag))
    elif t is bytes:
        out.append(O["BYTES"] + _i4(len(v)) + v)
    elif t is str:
        b = v.encode("utf-8")
        out.append(O["PY3STRING"] + _i4(len(b)) + b)
    elif t is Py2Str:
        out.append(O["PY2STRING"] + _i4(len(v.b)) + v.b)
    elif t is Py2Unicode:
        b = v.s.encode("utf-8")
        out.append(O["UNICODE"] + _i4(len(b)) + b)
    elif t is list:
        out.append(O["NEWLIST"] + _i4(len(v)))
        for i, x in enumerate(v):
            encode_body(i, out)
            encode_body(x, out)
            out.append(O["SETITEM"])
    elif t is dict:
        out.append(O["NEWDICT"])
        for k, x in v.items():
            encode_body(k, out)
            encode_body(x, out)
            out.append(O["SETITEM"])
    elif t is tuple:
        for x in v:
            encode_body(x, out)
        out.append(O["BUILDTUPLE"] + _i4(len(v)))
    elif t is set or t is frozenset:
        for x in v:
            encode_body(x, out)
        out.append((O["SET"] if t is set else O["FROZENSET"]) + _i4(len(v)))
    else:
        raise TypeError(f"refcodec: unsupported {t}")


def encode(v) -> bytes:
    out = [VERSION]
    encode_body(v, out)
    out.append(O["STOP"])
    return b"".join(out)


class _Reader:
    def __init__(self, data: bytes) -> None:
        self.data = data
        self.pos = 0

    def read(self, n: int) -> bytes:
        if n < 0:
            raise RefError("negative length")
        if self.pos + n > len(self.data):
            self.pos = len(self.data)
            raise RefEOF("short read")
        b = self.data[self.pos : self.pos + n]
        self.pos += n
        return b

    def i4(self) -> int:
        return struct.unpack("!i", self.read(4))[0]

    def remaining(self) -> int:
        return len(self.data) - self.pos


def decode(data: bytes, py2str_as_py3str: bool = False, py3str_as_py2str: bool = False, versioned: bool = True, prealloc_limit: int | None = None):
    """strict reference decoder; raises RefEOF / RefError"""
    r = _Reader(data)
    if versioned:
        v = r.read(1)
        if v != VERSION:
            raise RefError("foreign version byte")
    stack: list = []
    rev = {v: k for k, v in O.items()}
    while True:
        op = r.read(1)
        name = rev.get(op)
        if name is None:
            raise RefError("unknown opcode")
        if name == "NONE":
            stack.append(None)
        elif name == "TRUE":
            stack.append(True)
        elif name == "FALSE":
            stack.append(False)
        elif name in ("INT", "LONG"):
            stack.append(r.i4())
        elif name in ("LONGINT", "LONGLONG"):
            n = r.i4()
            stack.append(decimal_to_int(_ascii(r.read(n))))
        elif name == "FLOAT":
            stack.append(struct.unpack("!d", r.read(8))[0])
        elif name == "COMPLEX":
            a, b = struct.unpack("!dd", r.read(16))
            stack.append(complex(a, b))
        elif name == "BYTES":
            stack.append(r.read(r.i4()))
        elif name == "PY3STRING":
            b = r.read(r.i4())
            stack.append(b if py3str_as_py2str else _utf8(b))
        elif name == "PY2STRING":
            b = r.read(r.i4())
            stack.append(b.decode("latin-1") if py2str_as_py3str else b)
        elif name == "UNICODE":
            stack.append(_utf8(r.read(r.i4())))
        elif name == "NEWLIST":
            n = r.i4()
            if n < 0:
                raise RefError("negative list length")
            # every element needs at least 3 more bytes (index, value, SETITEM): a
            # count beyond that cannot be justified by the input
            if prealloc_limit is not None and n > prealloc_limit and n * 3 > r.remaining():
                raise RefPrealloc(f"NEWLIST {n} with {r.remaining()} bytes left")
            stack.append([None] * n)
        elif name == "NEWDICT":
            stack.append({})
        elif name == "SETITEM":
            if len(stack) < 3:
                raise RefError("SETITEM needs container, key, value")
            val = stack.pop()
            key = stack.pop()
            c = stack[-1]
            if type(c) is list:
                if type(key) not in (int, bool) or not -len(c) <= key < len(c):
                    raise RefError("bad list index")
                c[key] = val
            elif type(c) is dict:
                try:
                    c[key] = val
                except TypeError:
                    raise RefError("unhashable key") from None
            else:
                raise RefError("SETITEM on a non-container")
        elif name in ("BUILDTUPLE", "SET", "FROZENSET"):
            n = r.i4()
            if n < 0 or n > len(stack):
                raise RefError("bad element count")
            items = stack[len(stack) - n :]
            del stack[len(stack) - n :]
            try:
                stack.append({"BUILDTUPLE": tuple, "SET": set, "FROZENSET": frozenset}[name](items))
            except TypeError:
                raise RefError("unhashable element") from None
        elif name == "CHANNEL":
            r.i4()
            raise RefError("CHANNEL outside a gateway")
        elif name == "STOP":
            if len(stack) != 1:
                raise RefError("STOP with stack depth %d" % len(stack))
            return stack[0]


def _utf8(b: bytes) -> str:
    try:
        return b.decode("utf-8")
    except UnicodeDecodeError:
        raise RefError("invalid utf-8") from None


def _ascii(b: bytes) -> bytes:
    if not all(c < 128 for c in b):
        raise RefError("non-ascii decimal")
    return b
