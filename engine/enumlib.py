"""bounded-exhaustive value generators and the typed structural equality `same`"""

from __future__ import annotations

import itertools
import struct
from collections import OrderedDict
from collections import namedtuple
from decimal import Decimal


def bits(f: float) -> bytes:
    return struct.pack("!d", f)


def same(a, b) -> bool:
    """equal with exactly the same type at every position; floats by bit pattern;
    dicts by ordered item lists"""
    if type(a) is not type(b):
        return False
    t = type(a)
    if t is float:
        return bits(a) == bits(b)
    if t is complex:
        return bits(a.real) == bits(b.real) and bits(a.imag) == bits(b.imag)
    if t in (list, tuple):
        return len(a) == len(b) and all(same(x, y) for x, y in zip(a, b))
    if t is dict:
        return len(a) == len(b) and all(same(k1, k2) and same(v1, v2) for (k1, v1), (k2, v2) in zip(a.items(), b.items()))
    if t in (set, frozenset):
        if len(a) != len(b):
            return False
        rest = list(b)
        for x in a:
            for i, y in enumerate(rest):
                if same(x, y):
                    del rest[i]
                    break
            else:
                return False
        return True
    return a == b


NAN_PAYLOAD = struct.unpack("!d", b"\x7f\xf8\x00\x00\x00\x00\x12\x34")[0]

INT_LEAVES = [0, 1, -1, 255, -256, 2**31 - 2, 2**31 - 1, 2**31, 2**31 + 1, -(2**31) + 1, -(2**31), -(2**31) - 1, -(2**31) - 2, 2**32, -(2**32), 2**63, -(2**63), 2**63 + 1, -(2**63) - 1, 10**30, -(10**30), 10**4299, -(10**4299)]
FLOAT_LEAVES = [0.0, -0.0, 1.5, -2.25, float("inf"), float("-inf"), float("nan"), NAN_PAYLOAD, 5e-324, 1.7976931348623157e308]
COMPLEX_LEAVES = [0j, complex(-0.0, 0.0), complex(1.5, -2.5), complex(float("inf"), float("nan")), complex(0.0, -0.0)]
BYTES_LEAVES = [b"", b"\x00", b"\xff\xff\xff", bytes(range(256))]
STR_LEAVES = ["", "a", "\x00", "é", "€", "\U0001f600", "a\nb", "L", "Q"]
# every class of lone surrogate (high: first/last; low: first, around the U+DC80..U+DCFF range that
# error handlers such as surrogateescape give a meaning to, last), embedded and as a reversed pair
BAD_STR_LEAVES = ["\ud800", "a\udfffb", "\udbff", "\udc00", "\udc7f", "\udc80", "x\udcffy", "\udd00", "\udc00\ud800", "\udc80" * 3]
LEAVES = [None, True, False] + INT_LEAVES + FLOAT_LEAVES + COMPLEX_LEAVES + BYTES_LEAVES + STR_LEAVES
REP_LEAVES = [None, True, 1, -(2**31) - 1, 2**31, -0.0, float("nan"), 1j, b"\x00", "€", "", 0]
HASHABLE_REP = [None, True, 1, 2**31, -0.0, 1.5, b"\x00", "€", ""]
HUGE_INTS = [10**4300, -(10**4300), 10**5000]


def containers_of(members: list, hashable: list, width: int = 2):
    """all containers with 0..width members drawn from `members`"""
    yield []
    yield ()
    yield {}
    yield set()
    yield frozenset()
    for n in range(1, width + 1):
        for combo in itertools.product(range(len(members)), repeat=n):
            xs = [members[i] for i in combo]
            yield list(xs)
            yield tuple(xs)
            if n == 1:
                yield {"k": xs[0]}
            else:
                yield {"k%d" % j: x for j, x in enumerate(xs)}
    for n in range(1, width + 1):
        for combo in itertools.combinations(range(len(hashable)), n):
            xs = [hashable[i] for i in combo]
            yield set(xs)
            yield frozenset(xs)
            yield {x: i for i, x in enumerate(xs)}
            if n == 2:
                yield {x: i for i, x in enumerate(reversed(xs))}  # other insertion order


def is_hashable(v) -> bool:
    try:
        hash(v)
        return True
    except TypeError:
        return False


class _SubInt(int):
    pass


class _SubFloat(float):
    pass


class _SubStr(str):
    pass


class _SubBytes(bytes):
    pass


class _SubList(list):
    pass


class _SubTuple(tuple):
    pass


class _SubDict(dict):
    pass


class _SubSet(set):
    pass


class _SubFrozenset(frozenset):
    pass


_NT = namedtuple("_NT", "a b")


def _collide(name, base, *args):
    """a subclass whose __name__ equals a supported type name (as numpy scalars have)"""
    return type(name, (base,), {})(*args)


def unsupported_leaves():
    out = [
        ("object", object()),
        ("class", int),
        ("function", same),
        ("bytearray", bytearray(b"x")),
        ("memoryview", memoryview(b"x")),
        ("range", range(3)),
        ("Ellipsis", Ellipsis),
        ("Decimal", Decimal("1.5")),
        ("subint", _SubInt(5)),
        ("subfloat", _SubFloat(1.5)),
        ("substr", _SubStr("s")),
        ("subbytes", _SubBytes(b"b")),
        ("sublist", _SubList([1])),
        ("subtuple", _SubTuple((1,))),
        ("subdict", _SubDict(a=1)),
        ("subset", _SubSet([1])),
        ("subfrozenset", _SubFrozenset([1])),
        ("OrderedDict", OrderedDict(a=1)),
        ("namedtuple", _NT(1, 2)),
        ("collide-bool", _collide("bool", int, 1)),
        ("collide-int", _collide("int", int, 7)),
        ("collide-float", _collide("float", float, 1.5)),
        ("collide-str", _collide("str", str, "x")),
        ("collide-list", _collide("list", list, [1])),
        ("collide-tuple", _collide("tuple", tuple, (1,))),
        ("collide-dict", _collide("dict", dict)),
        ("collide-set", _collide("set", set, [1])),
        ("collide-NoneType", _collide("NoneType", object)),
        ("collide-bytes", _collide("bytes", bytes, b"z")),
    ]
    for s in BAD_STR_LEAVES:
        out.append(("bad-str", s))
    return out


def shapes_with_hole():
    """container shapes with one position for an (unsupported) leaf"""
    return [
        ("bare", lambda x: x),
        ("list", lambda x: [1, x]),
        ("tuple", lambda x: (x, 2)),
        ("dict-value", lambda x: {"k": x}),
        ("nested", lambda x: [({"k": [x]},)]),
        ("list-later", lambda x: [1, 2, 3, x]),
    ]


def hashable_shapes_with_hole():
    return [
        ("dict-key", lambda x: {x: 1}),
        ("set", lambda x: {x}),
        ("frozenset", lambda x: frozenset([x])),
        ("tuple-in-set", lambda x: {(1, x)}),
    ]
