"""virtual ``socket`` module for VExecModel (DESIGN 1.3).

Stream sockets only.  ``recv`` returns 1..n available bytes (environment choice when
``world.short_reads``); ``sendall`` is *not* atomic: it is a loop of partial sends
with a scheduling point between the pieces, the split being an environment choice
when ``world.opts['sendall_splits']`` is set -- the kernel's behaviour once a
payload exceeds the socket buffer.
"""

from __future__ import annotations

import builtins
import os
import types

from . import instrument
from .vworld import InternalError
from .vworld import VPipe
from .vworld import World

_DEVNULL_FD: list[int] = []


def _real_fd() -> int:
    if not _DEVNULL_FD:
        _DEVNULL_FD.append(os.open(os.devnull, os.O_RDONLY))
    return _DEVNULL_FD[0]


class gaierror(OSError):
    pass


class VSocket:
    def __init__(self, world: World, proc) -> None:
        self.w = world
        self.proc = proc
        self.rx: VPipe | None = None  # peer -> me
        self.tx: VPipe | None = None  # me -> peer
        self.addr = None
        self.listening = False
        self.backlog: list = []
        self.closed = False
        self.rd_shut = False
        self.wr_shut = False
        self.name = f"sock{world.nobj}"
        world.nobj += 1

    # -- plumbing ------------------------------------------------------
    def _proc_close(self) -> None:
        self.closed = True
        if self.tx is not None:
            self.tx.wclosed = True
        if self.rx is not None:
            self.rx.rclosed = True
        if self.listening:
            self.w.listeners.pop(self.addr, None)

    def fileno(self) -> int:
        return _real_fd()

    def setsockopt(self, *a) -> None:
        return None

    def getsockname(self):
        return self.addr

    def bind(self, hostport) -> None:
        host, port = hostport
        w = self.w
        if not hasattr(w, "listeners"):
            w.listeners = {}
            w.nextport = 40000
        if port == 0:
            port = w.nextport
            w.nextport += 1
        host = host or "0.0.0.0"
        if host == "localhost":
            host = "127.0.0.1"
        self.addr = (host, port)

    def listen(self, n: int = 5) -> None:
        self.listening = True
        self.w.listeners[self.addr] = self
        self.proc.fds.append(self)

    def accept(self):
        self.w.point("accept:" + self.name, lambda: bool(self.backlog) or self.closed, xproc=True)
        if not self.backlog:
            raise OSError(9, "Bad file descriptor")
        conn = self.backlog.pop(0)
        return conn, ("127.0.0.1", 50000 + len(self.w.procs))

    def connect(self, hostport) -> None:
        host, port = hostport
        w = self.w
        w.point("connect:" + self.name, xproc=True)
        if host in ("localhost", "0.0.0.0", ""):
            host = "127.0.0.1"
        lst = None
        for (h, p), s in getattr(w, "listeners", {}).items():
            if p == port and (h == host or h == "0.0.0.0"):
                lst = s
        if lst is None or lst.closed:
            raise ConnectionRefusedError(111, "Connection refused")
        n = w.nobj
        a2b = VPipe(w, f"s{n}.c2s")
        b2a = VPipe(w, f"s{n}.s2c")
        w.nobj += 1
        peer = VSocket(w, lst.proc)
        self.tx, self.rx = a2b, b2a
        peer.tx, peer.rx = b2a, a2b
        a2b.wproc, a2b.rproc = self.proc, lst.proc
        b2a.wproc, b2a.rproc = lst.proc, self.proc
        self.peer = peer
        peer.peer = self
        self.proc.fds.append(self)
        lst.proc.fds.append(peer)
        lst.backlog.append(peer)

    def makefile(self, mode: str = "rb"):
        sock = self

        class _F:
            def readline(self_inner) -> bytes:
                p = sock.rx
                sock.w.point("srl:" + sock.name, lambda: (b"\n" in p.buf) or p.wclosed, xproc=True)
                i = p.buf.find(b"\n")
                k = len(p.buf) if i < 0 else i + 1
                out = bytes(p.buf[:k])
                del p.buf[:k]
                return out

            def close(self_inner) -> None:
                return None

        return _F()

    def recv(self, n: int) -> bytes:
        p = self.rx
        w = self.w
        if p is None or self.closed:
            raise OSError(9, "Bad file descriptor")
        w.point("recv:" + self.name, lambda: bool(p.buf) or p.wclosed or self.rd_shut or self.closed, xproc=True)
        if self.rd_shut:
            return b""
        if not p.buf:
            wp = p.wproc
            if w.opts.get("rst_on_death") and wp is not None and not wp.alive and wp.exit_reason in ("cut", "killed"):
                # a peer that died abruptly may answer with RST instead of FIN
                raise ConnectionResetError(104, "Connection reset by peer")
            return b""
        k = min(n, len(p.buf))
        if k > 1 and w.short_reads:
            c = w.env_choice(3 if k > 2 else 2, "short-recv:" + self.name)
            if c == 1:
                k = 1
            elif c == 2:
                k = k - 1
        out = bytes(p.buf[:k])
        del p.buf[:k]
        return out

    def recv_into(self, buffer, nbytes: int = 0, flags: int = 0) -> int:
        mv = memoryview(buffer)
        n = nbytes or len(mv)
        data = self.recv(min(n, len(mv)))
        mv[: len(data)] = data
        return len(data)

    def send(self, data) -> int:
        """may transmit only a part (environment choice when sendall_splits is on)"""
        data = bytes(data)
        n = len(data)
        if n > 1 and self.w.opts.get("sendall_splits") and self.w.env_choice(2, "partial-send:" + self.name) == 1:
            n = max(1, n // 2)
        self._send_piece(data[:n])
        return n

    def _send_piece(self, data: bytes) -> None:
        p = self.tx
        w = self.w
        w.point("send:" + self.name, xproc=True)
        if self.closed or self.wr_shut:
            raise BrokenPipeError(32, "Broken pipe")
        if p.rclosed:
            raise ConnectionResetError(104, "Connection reset by peer")
        if p.cut_at is not None and p.total + len(data) >= p.cut_at:
            keep = p.cut_at - p.total
            p.buf += data[:keep]
            p.total += keep
            if p.record is not None:
                p.record += data[:keep]
            p.cut_at = None
            w.log("cut", p.name, p.total)
            p.wproc.die(-9, "cut")
            raise InternalError("cut: writer thread not in dying process")
        p.buf += data
        p.total += len(data)
        if p.record is not None:
            p.record += data

    def sendall(self, data) -> None:
        data = bytes(data)
        w = self.w
        if self.tx is None:
            raise OSError(107, "Transport endpoint is not connected")
        n = len(data)
        cuts: list[int] = []
        if w.opts.get("sendall_splits") and n > 1:
            # candidate split positions: inside the 9-byte header, at the
            # header/payload boundary, inside the payload
            cands = [c for c in (4, 9, 9 + (n - 9) // 2) if 0 < c < n]
            cands = sorted(set(cands))
            c = w.env_choice(len(cands) + 1, "sendall-split:" + self.name)
            if c:
                cuts = [cands[c - 1]]
        self.tx.writes.append(n)
        pos = 0
        for c in cuts + [n]:
            self._send_piece(data[pos:c])
            pos = c

    def shutdown(self, how: int) -> None:
        w = self.w
        w.point("shutdown:" + self.name, xproc=True)
        if self.tx is None and not self.listening:
            raise OSError(107, "Transport endpoint is not connected")
        if how in (0, 2):
            self.rd_shut = True
        if how in (1, 2) and self.tx is not None:
            self.wr_shut = True
            self.tx.wclosed = True
        if self.listening and how == 2:
            self.w.listeners.pop(self.addr, None)
            self.closed = True

    def close(self) -> None:
        self._proc_close()


def make_socket_module(world: World, proc) -> types.SimpleNamespace:
    def socket(family=2, type=1, proto=0):
        return VSocket(world, proc)

    return types.SimpleNamespace(
        socket=socket,
        AF_INET=2,
        SOCK_STREAM=1,
        SOL_IP=0,
        IP_TOS=1,
        SOL_TCP=6,
        TCP_NODELAY=1,
        SOL_SOCKET=1,
        SO_REUSEADDR=2,
        error=OSError,
        gaierror=gaierror,
    )


# ----------------------------------------------------------------------
# memoising / instrumenting compile() for source shipped to a socket server
# ----------------------------------------------------------------------
_real_compile = builtins.compile
_CACHE: dict = {}
_SMALL: dict = {}


def _compile(source, filename, mode, *a, **kw):
    if isinstance(source, str) and not a and not kw and len(source) <= 20000:
        key = (source, filename, mode)
        co = _SMALL.get(key)
        if co is None:
            co = _real_compile(source, filename, mode)
            if len(_SMALL) > 512:
                _SMALL.clear()
            _SMALL[key] = co
        return co
    if isinstance(source, str) and len(source) > 20000 and not a and not kw:
        key = (source, filename, mode)
        co = _CACHE.get(key)
        if co is None:
            try:
                import execnet.gateway_base as gb
                import inspect

                base = inspect.getsource(gb)
            except Exception:  # noqa: BLE001
                base = None
            if base is not None and source.startswith(base):
                co = instrument.instrument_source(source, filename, "gateway_base")
            else:
                co = _real_compile(source, filename, mode)
            if len(_CACHE) > 8:
                _CACHE.clear()
            _CACHE[key] = co
        return co
    return _real_compile(source, filename, mode, *a, **kw)


def install_compile_cache() -> None:
    builtins.compile = _compile
