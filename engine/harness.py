"""glue between checks, explorer and evidence"""

from __future__ import annotations

import json
import os

from . import evidence
from . import explorer
from . import instrument
from . import vworld

TIER_PROCS = min(16, os.cpu_count() or 1)


def stmt_mask(pred=None) -> bytearray:
    """mask of statement points; default: all instrumented execnet statements"""
    if pred is None:
        return instrument.select(instrument.default_pred)
    return instrument.select(pred)


def run_exploration(rep: evidence.Report, pid: str, name: str, scn, params, bounds, *, stmt=None, horizon=20000, max_execs=300000, min_outcomes=0, params_desc=None):
    """explore one scenario; confirm and report violations; return Stats"""
    import time

    t0 = time.time()
    ignore = {k["key"] for k in rep.known}
    st = explorer.explore(
        scn,
        params,
        bounds,
        stmt_mask=stmt,
        horizon=horizon,
        max_execs=max_execs,
        seed=evidence.seed(),
        ignore_keys=ignore,
    )
    rep.add_exploration(name, st, bounds, params_desc=params_desc if params_desc is not None else params, min_outcomes=min_outcomes)
    rep.cov["parts"][name]["wall_s"] = round(time.time() - t0, 2)
    if os.environ.get("VERIF_VERBOSE"):
        print(f"  {name}: execs={st.execs} states={len(st.states)} outcomes={len(st.outcomes)} capped={st.capped} budget_hit={st.budget_hit} {time.time() - t0:.1f}s", flush=True)
    for key, n in st.known.items():
        rep.violation(key, f"known finding hit in {n} executions", {})
    for prefix, (key, msg) in st.violations:
        res = explorer.confirm(scn, params, prefix, stmt_mask=stmt, horizon=horizon)
        if res.violation is None or res.violation[0] != key:
            raise vworld.InternalError(f"violation did not reproduce on replay: {key} vs {res.violation}")
        payload = {
            "check": pid,
            "sub": name,
            "params": params,
            "bounds": bounds,
            "stmt": stmt is not None,
            "horizon": horizon,
            "choices": [list(p) for p in prefix],
            "log": [list(map(str, ev)) for ev in (res.log or [])][-400:],
            "stderr": (res.stderr or "")[-3000:],
        }
        rep.violation(key, f"[{name}] {msg}\n  schedule: {len(prefix)} choices, {sum(1 for c in prefix if c[0])} non-default", payload)
    return st


def replay_file(path: str, scenarios: dict, stmt_for=None) -> int:
    d = json.load(open(path))
    scn = scenarios[d["sub"].split("/")[0]] if d["sub"].split("/")[0] in scenarios else scenarios[d["sub"]]
    stmt = None
    if d.get("stmt"):
        stmt = stmt_for(d) if stmt_for else stmt_mask()
    if stmt is not None:
        # the recorded trace is that of a warm process (see explorer.explore): warm this one up first
        explorer.run_once(scn.scenario, scn.oracle, d["params"], [], stmt_mask=stmt, horizon=d.get("horizon", 20000))
    res = explorer.replay(scn, d["params"], [tuple(c) for c in d["choices"]], stmt_mask=stmt, horizon=d.get("horizon", 20000))
    for ev in res.log or []:
        print(" ", ev)
    if res.stderr:
        print("--- stderr of the virtual world ---")
        print(res.stderr)
    if res.violation is not None:
        print(f"REPRODUCED key={res.violation[0]}\n{res.violation[1]}")
        return 1
    print("not reproduced (property held on this schedule)")
    return 0
