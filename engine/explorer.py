"""Deviation-bounded stateless DFS over choice sequences (DESIGN 1.4).

A *scenario* is a callable ``scenario(world, params) -> ctx`` that creates virtual
processes/threads in ``world`` (nothing runs yet); ``oracle(world, ctx, params)``
returns ``None`` or a violation message after the world ran to quiescence.

An execution is a pure function of (params, choice prefix).
"""

from __future__ import annotations

import gc
import json
import multiprocessing as mp
import os
import sys
import time
import traceback
from collections import Counter
from hashlib import blake2b

from . import vworld
from .vworld import ENV
from .vworld import FREE
from .vworld import STMT
from .vworld import SYNC
from .vworld import InternalError
from .vworld import World


class Divergence(InternalError):
    pass


class Chooser:
    """replays ``prefix`` then answers 0; records every choice point"""

    __slots__ = ("prefix", "trace", "fps", "want_fp")

    def __init__(self, prefix, want_fp: bool = True) -> None:
        self.prefix = prefix  # list of (choice, n, cls)
        self.trace: list[tuple[int, int, str]] = []
        self.fps: list[int] = []
        self.want_fp = want_fp

    def choose(self, world: World, n: int, cls: str, info) -> int:
        i = len(self.trace)
        if i < len(self.prefix):
            c, pn, pcls = self.prefix[i]
            if pn != n or pcls != cls:
                raise Divergence(
                    f"replay divergence at point {i}: recorded (n={pn},{pcls}) now (n={n},{cls}) info={info}"
                )
        else:
            c = 0
        self.trace.append((c, n, cls))
        if self.want_fp:
            self.fps.append(world.fingerprint(cls))
        return c


def _unraisable(u) -> None:
    """exceptions in __del__ while a virtual thread is being unwound are expected"""
    if isinstance(u.exc_value, (vworld.Teardown, vworld.ProcExit)):
        return
    w = vworld.current_world()
    if w is None:
        sys.__stderr__.write(f"Exception ignored in {u.object!r}: {type(u.exc_value).__name__}: {u.exc_value}\n")
    else:
        w.stderr.write(f"Exception ignored in {getattr(u.object, '__qualname__', type(u.object).__name__)}: {type(u.exc_value).__name__}: {u.exc_value}\n")


class Result:
    __slots__ = ("trace", "fps", "violation", "outcome", "capped", "steps", "log", "obs", "stderr", "now")


def run_once(scenario, oracle, params, prefix, *, stmt_mask=None, horizon=20000, want_fp=True, keep_log=False) -> Result:
    ch = Chooser(prefix, want_fp)
    w = World(ch, stmt_mask=stmt_mask, horizon=horizon)
    vworld.activate(w)
    vworld.rebind_module_globals(w)
    old_err = sys.stderr
    old_out = sys.stdout
    sys.stderr = w.stderr
    sys.stdout = w.stdout
    sys.unraisablehook = _unraisable  # stays installed: objects of a finished world are finalised later
    gc.disable()
    res = Result()
    ctx = None
    try:
        try:
            ctx = scenario(w, params)
            w.run()
        finally:
            quiescent = w.quiescent
            blocked = [(t.name, t.label, t.role) for t in w.blocked_threads()]
            w.finish()
        sys.stderr = old_err
        sys.stdout = old_out
        if len(ch.trace) < len(prefix):
            raise Divergence(f"execution ended after {len(ch.trace)} choices, prefix has {len(prefix)}")
        res.capped = w.capped
        w.blocked_at_end = blocked
        w.was_quiescent = quiescent
        res.violation = None
        res.outcome = None
        if not w.capped:
            out = oracle(w, ctx, params)
            if isinstance(out, tuple):
                res.violation, res.outcome = out
            else:
                res.violation = out
        else:
            # the step horizon was reached: the scenario (finite work) did not quiesce
            res.violation = (
                "horizon",
                f"execution did not quiesce within {horizon} scheduling points (livelock, spinning or unbounded activity)\n"
                f"  params={params}\n  virtual time={w.now}\n  still active={blocked}\n  log tail={w.logl[-6:]}",
            )
            res.outcome = "horizon"
        res.trace = ch.trace
        res.fps = ch.fps
        res.steps = w.steps
        res.now = w.now
        res.obs = w.obs
        res.log = w.logl if keep_log else None
        res.stderr = w.stderr.getvalue() if keep_log else None
        return res
    finally:
        sys.stderr = old_err
        sys.stdout = old_out
        vworld.activate(None)
        ctx = None
        del w
        gc.enable()


def _cost(trace, upto: int) -> Counter:
    c: Counter = Counter()
    for ch, _n, cls in trace[:upto]:
        if ch:
            c[cls] += 1
    return c


def children(trace, start: int, bounds: dict) -> list:
    """all one-more-deviation prefixes of an executed trace, from point ``start``.

    Returned lazily as (trace, i, alt); ``materialize`` builds the prefix."""
    out = []
    used = _cost(trace, start)
    free_lim = bounds.get(FREE)
    for i in range(start, len(trace)):
        _ch, n, cls = trace[i]
        # beyond the prefix every recorded choice is the default (0)
        if n > 1:
            lim = free_lim if cls == FREE else bounds.get(cls, 0)
            if lim is None or used[cls] + 1 <= lim:
                for alt in range(1, n):
                    out.append((trace, i, alt))
    return out


def materialize(item) -> list:
    if isinstance(item, list):
        return item
    trace, i, alt = item
    _c, n, cls = trace[i]
    p = trace[:i]
    p.append((alt, n, cls))
    return p


class Stats:
    def __init__(self) -> None:
        self.execs = 0
        self.states: set[int] = set()
        self.transitions: set[int] = set()
        self.outcomes: Counter = Counter()
        self.capped = 0
        self.max_points = 0
        self.max_steps = 0
        self.violations: list = []
        self.budget_hit = False
        self.nontrivial: set[int] = set()
        self.exec_digest = 0
        self.known: Counter = Counter()

    def add(self, prefix, res: Result) -> None:
        self.execs += 1
        self.states.update(res.fps)
        for fp, (c, _n, _cls) in zip(res.fps, res.trace):
            self.transitions.add(hash((fp, c)))
        if res.outcome is not None:
            self.outcomes[res.outcome] += 1
        if res.capped:
            self.capped += 1
        self.max_points = max(self.max_points, len(res.trace))
        self.max_steps = max(self.max_steps, res.steps)
        key = tuple(c for c, _n, _cls in res.trace)
        hk = hash(key)
        if any(key):
            self.nontrivial.add(hk)
        self.exec_digest ^= int.from_bytes(blake2b(repr(key).encode(), digest_size=8).digest(), "big")

    def merge(self, o: "Stats") -> None:
        self.execs += o.execs
        self.states |= o.states
        self.transitions |= o.transitions
        self.outcomes.update(o.outcomes)
        self.capped += o.capped
        self.max_points = max(self.max_points, o.max_points)
        self.max_steps = max(self.max_steps, o.max_steps)
        self.violations += o.violations
        self.budget_hit |= o.budget_hit
        self.nontrivial |= o.nontrivial
        self.exec_digest ^= o.exec_digest
        self.known.update(o.known)


_CLS = [SYNC, STMT, FREE, ENV, "cut"]
_CLSI = {c: i for i, c in enumerate(_CLS)}


def pack(prefix) -> tuple:
    """compact, picklable form of a prefix"""
    from array import array

    return (
        array("H", [c for c, _n, _k in prefix]).tobytes(),
        array("H", [min(n, 65535) for _c, n, _k in prefix]).tobytes(),
        bytes(_CLSI[k] for _c, _n, k in prefix),
    )


def unpack(p) -> list:
    if isinstance(p, list):
        return p
    from array import array

    cs, ns, ks = p
    ca = array("H")
    ca.frombytes(cs)
    na = array("H")
    na.frombytes(ns)
    return [(c, n, _CLS[k]) for c, n, k in zip(ca, na, ks)]


def _to_prefix(item) -> list:
    if isinstance(item, tuple) and isinstance(item[0], bytes):
        return unpack(item)
    return materialize(item)


def _dfs(scn, params, roots, bounds, opts, max_execs, stop_on_first=True, slice_execs=None):
    """depth-first exploration of the subtrees below ``roots``.

    returns (Stats, leftover) -- leftover is the unexplored stack (packed) when
    ``slice_execs`` executions were done, else []."""
    st = Stats()
    stack = list(reversed(roots))
    seed = opts.get("seed", 0)
    while stack:
        if st.execs >= max_execs:
            st.budget_hit = True
            break
        if slice_execs is not None and st.execs >= slice_execs:
            return st, [pack(_to_prefix(p)) for p in stack]
        prefix = _to_prefix(stack.pop())
        res = run_once(scn.scenario, scn.oracle, params, prefix, stmt_mask=opts.get("stmt_mask"), horizon=opts.get("horizon", 20000))
        st.add(prefix, res)
        if res.violation is not None:
            if res.violation[0] in opts.get("ignore_keys", ()):
                st.known[res.violation[0]] += 1
            else:
                st.violations.append((prefix, res.violation))
                if stop_on_first:
                    break
        kids = children(res.trace, len(prefix), bounds)
        if seed and kids:
            r = seed % len(kids)
            kids = kids[r:] + kids[:r]
        stack.extend(reversed(kids))
    return st, []


_G: dict = {}


def _worker(task):
    scn, params, bounds, opts, slice_execs = _G["args"]
    try:
        return _dfs(scn, params, task, bounds, opts, 10**12, slice_execs=slice_execs)
    except BaseException as e:  # noqa: BLE001
        return ("internal", f"{type(e).__name__}: {e}\n{traceback.format_exc()}")


_WARM: set = set()


def explore(scn, params, bounds, *, stmt_mask=None, horizon=20000, max_execs=200000, procs=None, seed=0, frontier=256, slice_execs=400, ignore_keys=()) -> Stats:
    """explore all executions of scn(params) within ``bounds`` = {ps, pl, env, free}"""
    import queue as _q
    from collections import deque

    opts = {"stmt_mask": stmt_mask, "horizon": horizon, "seed": seed, "ignore_keys": frozenset(ignore_keys)}
    procs = procs or min(16, os.cpu_count() or 1)
    st = Stats()
    # warm-up: the library fills lazily built tables (e.g. the serializer's per-type dispatch cache) during
    # the first execution of a process; statement-level traces of a cold and a warm run differ, so the
    # recorded root execution must already be a warm one (its result is discarded)
    key = (id(scn), repr(sorted(params.items(), key=lambda kv: kv[0])) if isinstance(params, dict) else repr(params))
    if stmt_mask is not None and key not in _WARM:
        _WARM.add(key)
        run_once(scn.scenario, scn.oracle, params, [], stmt_mask=stmt_mask, horizon=horizon)
    # breadth-first expansion in this process until the frontier is wide enough
    level = [[]]
    while level and len(level) < frontier and st.execs < max_execs:
        nxt = []
        for prefix in level:
            prefix = materialize(prefix)
            res = run_once(scn.scenario, scn.oracle, params, prefix, stmt_mask=stmt_mask, horizon=horizon)
            st.add(prefix, res)
            if res.violation is not None:
                if res.violation[0] in ignore_keys:
                    st.known[res.violation[0]] += 1
                else:
                    st.violations.append((prefix, res.violation))
                    return st
            nxt.extend(children(res.trace, len(prefix), bounds))
        level = nxt
        if st.execs > 64 and len(level) >= procs * 4:
            break
    if not level:
        return st
    level = [materialize(p) for p in level]
    if procs == 1 or len(level) < 8:
        sub, _ = _dfs(scn, params, level, bounds, opts, max_execs - st.execs)
        st.merge(sub)
        return st
    _G["args"] = (scn, params, bounds, opts, slice_execs)
    pending: deque = deque()
    chunk = max(1, len(level) // (procs * 4))
    for i in range(0, len(level), chunk):
        pending.append([pack(p) for p in level[i : i + chunk]])
    results: _q.Queue = _q.Queue()
    inflight = 0
    ctx = mp.get_context("fork")
    with ctx.Pool(procs) as pool:
        while pending or inflight:
            while pending and inflight < procs * 2:
                pool.apply_async(_worker, (pending.popleft(),), callback=results.put, error_callback=results.put)
                inflight += 1
            r = results.get()
            inflight -= 1
            if isinstance(r, BaseException):
                pool.terminate()
                raise InternalError(repr(r))
            if isinstance(r, tuple) and r and r[0] == "internal":
                pool.terminate()
                raise InternalError(r[1])
            sub, left = r
            st.merge(sub)
            if st.violations:
                pool.terminate()
                break
            if st.execs >= max_execs:
                st.budget_hit = True
                pool.terminate()
                break
            if left:
                # the bottom of a DFS stack holds the biggest subtrees: hand them out singly
                k = max(1, len(left) // (procs * 2))
                for i in range(0, len(left), k):
                    pending.append(left[i : i + k])
    return st


def replay(scn, params, prefix, *, stmt_mask=None, horizon=20000) -> Result:
    return run_once(scn.scenario, scn.oracle, params, [tuple(p) for p in prefix], stmt_mask=stmt_mask, horizon=horizon, keep_log=True)


def confirm(scn, params, prefix, *, stmt_mask=None, horizon=20000) -> Result:
    """re-execute a violating schedule twice; both runs must agree (DESIGN 1.4)"""
    a = replay(scn, params, prefix, stmt_mask=stmt_mask, horizon=horizon)
    b = replay(scn, params, prefix, stmt_mask=stmt_mask, horizon=horizon)
    import re as _re

    def _norm(x):
        return _re.sub(r"0x[0-9a-fA-F]{6,}", "0x?", json.dumps(x, default=repr))

    if _norm(a.violation) != _norm(b.violation) or _norm(a.log) != _norm(b.log):
        raise InternalError("nondeterministic replay of a violating schedule:\n" + json.dumps([a.violation, b.violation])[:2000])
    return a
