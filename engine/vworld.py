"""Virtual world: greenlet threads, sync objects, clock, pipes, processes.

The unmodified execnet classes run on top of a ``VExecModel``; every source of
scheduling / time / IO / process nondeterminism is decided by ``World.chooser``.
See DESIGN.md 1.1-1.3.
"""

from __future__ import annotations

import gc
import io as _io
import os
import re
import sys
import types
from hashlib import blake2b

import greenlet

from . import instrument

getcurrent = greenlet.getcurrent

SYNC = "ps"  # preemption at a sync point
STMT = "pl"  # preemption at a statement point
FREE = "free"  # switch at a blocking point / after thread end
ENV = "env"  # environment deviation


class Teardown(BaseException):
    """unwinds virtual threads at the end of an execution"""


class ProcExit(BaseException):
    """unwinds the current virtual thread because its process ended"""


class InternalError(Exception):
    """explorer / world bug or nondeterminism: exit code 2, never a violation"""


class Horizon(Exception):
    pass


NEW, READY, DONE = 0, 1, 2
_ADDR = re.compile(r"0x[0-9a-fA-F]{6,}")  # object addresses differ between replays


class VThread:
    __slots__ = (
        "tid",
        "name",
        "proc",
        "role",
        "g",
        "state",
        "pred",
        "deadline",
        "pending",
        "label",
        "level",
        "exc",
        "world",
        "is_main",
        "last_k",
        "stopped",
        "xproc",
        "nondaemon",
    )

    def __repr__(self) -> str:
        return f"<VThread {self.tid} {self.name}>"


class VProc:
    """a virtual OS process"""

    def __init__(self, world: World, name: str, backend: str = "thread") -> None:
        self.world = world
        self.pid = 1000 + len(world.procs)
        self.name = name
        self.threads: list[VThread] = []
        self.main: VThread | None = None
        self.alive = True
        self.exitcode: int | None = None
        self.stopped = False  # SIGSTOP
        self.fds: list = []  # objects with ._proc_close()
        self.ignore_sigint = False
        self.sigints = 0
        self.exit_reason: str | None = None
        self.exit_time: float | None = None
        world.procs.append(self)
        self.execmodel = VExecModel(world, self, backend)

    def __repr__(self) -> str:
        return f"<VProc {self.pid} {self.name} alive={self.alive}>"

    # -- process end ---------------------------------------------------
    def die(self, code: int, reason: str) -> None:
        """end this process now (called from scheduler context or any thread)"""
        if not self.alive:
            return
        w = self.world
        self.alive = False
        self.exitcode = code
        self.exit_reason = reason
        self.exit_time = w.now
        w.log("proc-exit", self.name, code, reason)
        for t in self.threads:
            if t.state != DONE:
                t.stopped = True  # never scheduled again; unwound at teardown
        for fd in list(self.fds):
            fd._proc_close()
        self.fds = []
        cur = w.cur
        if cur is not None and cur.proc is self and getcurrent() is cur.g:
            raise ProcExit()


class World:
    def __init__(self, chooser, *, stmt_mask: bytearray | None = None, horizon: int = 20000):
        self.chooser = chooser
        self.now = 0.0
        self.threads: list[VThread] = []
        self.procs: list[VProc] = []
        self.cur: VThread | None = None
        self.root = getcurrent()
        self.exploring = False
        self.teardown = False
        self.gc_mask = None  # statements at which "the cyclic GC runs now" is an environment choice
        self.in_gc = False
        self.gc_proc = None  # only threads of this virtual process trigger collections (its garbage only)
        self.steps = 0
        self.horizon = horizon
        self.capped = False
        self.obs: list = []
        self.logl: list = []
        self.stmt_mask = stmt_mask
        self.nobj = 0
        self.objs: list = []  # sync objects for fingerprinting
        self.stderr = _io.StringIO()
        self.stdout = _io.StringIO()
        self.hang: list = []
        self.quiescent = False
        self.short_reads = False
        self.timer_dev = False
        self.opts: dict = {}
        self.children: list = []
        self._sync_fp = 0
        self.local_reduction = True

    # -- bookkeeping ---------------------------------------------------
    def log(self, *ev) -> None:
        self.logl.append((round(self.now, 6),) + ev)

    def observe(self, *ev) -> None:
        self.obs.append(ev)
        self.logl.append((round(self.now, 6), "obs") + ev)

    def new_proc(self, name: str, backend: str = "thread") -> VProc:
        return VProc(self, name, backend)

    def spawn(self, fn, args=(), *, proc: VProc, name=None, role="service", is_main=False) -> VThread:
        t = VThread()
        t.tid = len(self.threads)
        t.name = name or getattr(fn, "__name__", "thread")
        t.proc = proc
        t.role = role
        t.state = NEW
        t.pred = None
        t.deadline = None
        t.pending = None
        t.label = "start"
        t.level = SYNC
        t.exc = None
        t.world = self
        t.is_main = is_main
        t.last_k = -1
        t.stopped = False
        t.xproc = True
        t.nondaemon = False
        t.g = greenlet.greenlet(lambda: self._thread_main(t, fn, args), parent=self.root)
        self.threads.append(t)
        proc.threads.append(t)
        if is_main:
            proc.main = t
        return t

    def _thread_main(self, t: VThread, fn, args) -> None:
        t.state = READY
        try:
            fn(*args)
        except (Teardown, ProcExit):
            pass
        except greenlet.GreenletExit:
            pass
        except BaseException as e:  # noqa: BLE001
            t.exc = e
            if not self.teardown:
                self.log("thread-died", t.name, type(e).__name__, _ADDR.sub("0x?", str(e)[:200]))
                if not (isinstance(e, (KeyboardInterrupt, SystemExit)) and not t.is_main):
                    import traceback

                    self.stderr.write(
                        _ADDR.sub("0x?", f"[vthread {t.name}] " + "".join(traceback.format_exception(e)))
                    )
        finally:
            t.state = DONE
            t.pred = None
            t.deadline = None
        if not self.teardown and t.proc.alive and (t.is_main or getattr(t, "nondaemon", False)):
            if t.is_main:
                t.proc.main_done = True
                t.proc.main_exc = t.exc
            # the interpreter waits for non-daemon threads before it exits
            if not getattr(t.proc, "main_done", False) or any(getattr(x, "nondaemon", False) and x.state != DONE for x in t.proc.threads):
                return
            t = t.proc.main if t.proc.main is not None else t
            code = 0
            if t.exc is not None and not (
                isinstance(t.exc, SystemExit) and not t.exc.code
            ):
                code = 1
            try:
                t.proc.die(code, "main-returned")
            except ProcExit:
                pass

    # -- scheduling ----------------------------------------------------
    def _is_enabled(self, t: VThread) -> bool:
        if t.state == DONE or t.stopped or t.proc.stopped:
            return False
        if t.pending is not None:
            return True
        p = t.pred
        if p is None or p():
            return True
        d = t.deadline
        return d is not None and d <= self.now

    def _others_enabled(self, me: VThread, xproc: bool = True) -> bool:
        if not xproc and self.local_reduction:
            mp = me.proc
            for t in self.threads:
                if t is not me and t.proc is mp and self._is_enabled(t):
                    return True
            return False
        for t in self.threads:
            if t is not me and self._is_enabled(t):
                return True
        return False

    def point(self, label: str, pred=None, timeout: float | None = None, level: str = SYNC, xproc: bool = False) -> bool:
        """scheduling point of the running virtual thread.

        returns True when pred holds (or is None), False on time-out.
        ``xproc``: the pending operation is visible to other virtual processes
        (pipe / socket / process-table operation).  At a process-local point only
        threads of the same process are preemption candidates: a local step
        commutes with every step of another process (no shared memory), so the
        cross-process switch is explored at the next xproc / blocking point."""
        if self.teardown:
            raise Teardown()
        me = self.cur
        if me is None or getcurrent() is not me.g:
            # called outside a virtual thread (set-up from root): must not block
            if pred is not None and not pred():
                raise InternalError(f"blocking point {label} outside a virtual thread")
            return True
        if me.stopped:
            raise ProcExit()
        self.steps += 1
        if self.steps > self.horizon:
            self.capped = True
            self.teardown = True
            raise Teardown()
        ok = pred is None or pred()
        if timeout is not None and timeout <= 0 and not ok:
            # non-blocking attempt: scheduling point, then immediate test
            if self.exploring and self._others_enabled(me, xproc):
                me.pred = None
                me.deadline = None
                me.label = label
                me.level = level
                me.xproc = xproc
                self._yield(me)
            return pred()
        if ok and me.pending is None:
            if not self.exploring or not self._others_enabled(me, xproc):
                return True
        me.pred = pred
        me.deadline = None if timeout is None else self.now + timeout
        me.label = label
        me.level = level
        me.xproc = xproc
        self._yield(me)
        me.deadline = None
        if pred is None:
            return True
        me.pred = None
        return bool(pred())

    def _yield(self, me: VThread) -> None:
        self.root.switch()
        if self.teardown:
            raise Teardown()
        if me.stopped:
            raise ProcExit()
        if me.pending is not None:
            exc = me.pending
            me.pending = None
            me.pred = None
            me.deadline = None
            raise exc

    def env_choice(self, n: int, kind: str) -> int:
        """environment answer; 0 is the default answer"""
        if n <= 1 or not self.exploring or self.teardown:
            return 0
        return self.chooser.choose(self, n, ENV, kind)

    def run(self) -> None:
        """scheduler loop; call from the root greenlet"""
        assert getcurrent() is self.root
        threads = self.threads
        while not self.teardown:
            cur = self.cur
            cur_en = cur is not None and self._is_enabled(cur)
            if cur_en and not cur.xproc and self.local_reduction:
                cp = cur.proc
                en = [t for t in threads if t is not cur and t.proc is cp and self._is_enabled(t)]
            else:
                en = [t for t in threads if t is not cur and self._is_enabled(t)]
            if cur_en:
                en.insert(0, cur)
            if not en:
                d = None
                for t in threads:
                    if t.state != DONE and not t.stopped and not t.proc.stopped and t.deadline is not None:
                        if d is None or t.deadline < d:
                            d = t.deadline
                if d is None:
                    self.quiescent = True
                    break
                if d > self.now:
                    self.now = d
                continue
            if len(en) == 1 or not self.exploring:
                idx = 0
            else:
                cls = cur.level if cur_en else FREE
                idx = self.chooser.choose(self, len(en), cls, cur.label if cur is not None else "")
            t = en[idx]
            self.cur = t
            t.g.switch()
        self.cur = None

    def finish(self) -> None:
        """unwind everything that is still suspended"""
        self.teardown = True
        for t in self.threads:
            if t.state == NEW:
                t.state = DONE
                continue
            if t.state != DONE and not t.g.dead:
                self.cur = t
                try:
                    t.g.throw(Teardown())
                except BaseException:  # noqa: BLE001
                    pass
            t.state = DONE
        self.cur = None

    def blocked_threads(self) -> list[VThread]:
        return [t for t in self.threads if t.state != DONE and not t.stopped and t.proc.alive and not t.proc.stopped]

    # -- fingerprint ---------------------------------------------------
    def fingerprint(self, cls: str = SYNC) -> int:
        """state fingerprint (evidence only, never used for pruning).

        Sync objects change only right after a sync point of the thread that
        runs, so at a statement point the pair (fingerprint at the last
        non-statement point, per-thread statement positions) identifies the state."""
        if cls == STMT:
            return hash((self._sync_fp, tuple([t.last_k for t in self.threads]), self.cur.tid if self.cur else -1))
        parts: list = [(t.state, t.label, t.last_k, t.stopped, t.pending is not None) for t in self.threads]
        for o in self.objs:
            parts.append(o._fp())
        for p in self.procs:
            parts.append((p.alive, p.stopped))
        self._sync_fp = fp = hash(tuple(parts))
        return fp


# ----------------------------------------------------------------------
# statement points
# ----------------------------------------------------------------------
_CUR_WORLD: list[World | None] = [None]


def _vp_hook(k: int) -> None:
    w = _CUR_WORLD[0]
    if w is None:
        return
    me = w.cur
    if me is None or getcurrent() is not me.g:
        return
    if w.teardown:
        raise Teardown()
    if me.stopped:
        raise ProcExit()
    me.last_k = k
    if me.pending is not None:
        exc = me.pending
        me.pending = None
        raise exc
    g = w.gc_mask
    if g is not None and w.exploring and k < len(g) and g[k] and not w.in_gc and (w.gc_proc is None or me.proc is w.gc_proc):
        # the cyclic collector may run at any allocation: an environment deviation at this statement
        if w.env_choice(2, "gc"):
            w.in_gc = True
            try:
                w.log("gc", me.name, instrument.point_name(k))
                gc.collect()
            finally:
                w.in_gc = False
    m = w.stmt_mask
    if m is None or not w.exploring or k >= len(m) or not m[k]:
        return
    if me.proc.execmodel.backend == "gevent":
        return
    w.point("L", level=STMT)


instrument.HOOK[0] = _vp_hook


def activate(world: World | None) -> None:
    _CUR_WORLD[0] = world


def current_world() -> World | None:
    return _CUR_WORLD[0]


def current_thread() -> VThread | None:
    w = _CUR_WORLD[0]
    if w is None:
        return None
    me = w.cur
    if me is None or getcurrent() is not me.g:
        return None
    return me


# ----------------------------------------------------------------------
# sync objects
# ----------------------------------------------------------------------
class VLock:
    """re-entrant lock (ThreadExecModel.Lock and .RLock are both threading.RLock)"""

    def __init__(self, world: World, name: str = "lock", reentrant: bool = True) -> None:
        self.w = world
        self.owner: VThread | None = None
        self.count = 0
        self.reentrant = reentrant
        self.name = f"{name}{world.nobj}"
        world.nobj += 1
        world.objs.append(self)

    def _fp(self):
        return ("L", self.owner.tid if self.owner else -1, self.count)

    def _me(self):
        me = self.w.cur
        if me is None or getcurrent() is not me.g:
            return _ROOT
        return me

    def acquire(self, blocking: bool = True, timeout: float = -1) -> bool:
        me = self._me()
        if self.reentrant and self.owner is me:
            self.count += 1
            return True
        free = lambda: self.owner is None  # noqa: E731
        if not blocking:
            to: float | None = 0
        elif timeout is None or timeout < 0:
            to = None
        else:
            to = timeout
        ok = self.w.point("acq:" + self.name, free, to)
        if ok:
            self.owner = me
            self.count = 1
        return ok

    def release(self) -> None:
        me = self._me()
        if self.owner is not me:
            raise RuntimeError("cannot release un-acquired lock")
        if self.count == 1:
            self.w.point("rel:" + self.name)
        self.count -= 1
        if self.count == 0:
            self.owner = None

    def __enter__(self):
        self.acquire()
        return self

    def __exit__(self, *a):
        self.release()

    def locked(self) -> bool:
        return self.owner is not None


class _Root:
    tid = -1


_ROOT = _Root()


class VEvent:
    def __init__(self, world: World) -> None:
        self.w = world
        self.flag = False
        self.name = f"ev{world.nobj}"
        world.nobj += 1
        world.objs.append(self)

    def _fp(self):
        return ("E", self.flag)

    def is_set(self) -> bool:
        return self.flag

    isSet = is_set

    def set(self) -> None:
        self.w.point("set:" + self.name)
        self.flag = True

    def clear(self) -> None:
        self.w.point("clr:" + self.name)
        self.flag = False

    def wait(self, timeout: float | None = None) -> bool:
        w = self.w
        if timeout is not None and w.timer_dev and not self.flag and timeout > 0:
            if w.env_choice(2, "timer:" + self.name) == 1:
                w.point("wait-expired:" + self.name)
                return self.flag
        w.point("wait:" + self.name, lambda: self.flag, timeout)
        return self.flag


class VEmpty(Exception):
    pass


class VFull(Exception):
    pass


class VQueue:
    def __init__(self, world: World, maxsize: int = 0) -> None:
        self.w = world
        self.items: list = []
        self.maxsize = maxsize if maxsize and maxsize > 0 else 0
        self.name = f"q{world.nobj}"
        world.nobj += 1
        world.objs.append(self)

    def _fp(self):
        return ("Q", len(self.items))

    def put(self, item, block: bool = True, timeout=None) -> None:
        if self.maxsize:
            # a bounded queue: put blocks while it is full (queue.Queue semantics)
            ok = self.w.point("put:" + self.name, lambda: len(self.items) < self.maxsize, None if block and timeout is None else (timeout if block else 0))
            if not ok:
                raise VFull()
        else:
            self.w.point("put:" + self.name)
        self.items.append(item)

    def put_nowait(self, item) -> None:
        self.put(item)

    def get(self, block: bool = True, timeout: float | None = None):
        w = self.w
        if not block:
            timeout = 0
        elif timeout is not None and timeout < 0:
            raise ValueError("'timeout' must be a non-negative number")
        if timeout is not None and timeout > 0 and w.timer_dev and not self.items:
            if w.env_choice(2, "timer:" + self.name) == 1:
                w.point("get-expired:" + self.name)
                if not self.items:
                    raise VEmpty()
                return self.items.pop(0)
        ok = w.point("get:" + self.name, lambda: bool(self.items), timeout)
        if not ok:
            raise VEmpty()
        return self.items.pop(0)

    def get_nowait(self):
        return self.get(block=False)

    def qsize(self) -> int:
        return len(self.items)

    def empty(self) -> bool:
        return not self.items


def _make_queue_module(world: World) -> types.SimpleNamespace:
    class Queue(VQueue):
        def __init__(self, maxsize: int = 0) -> None:
            VQueue.__init__(self, world, maxsize)

    return types.SimpleNamespace(Queue=Queue, Empty=VEmpty, Full=VFull)


# ----------------------------------------------------------------------
# pipes
# ----------------------------------------------------------------------
class VPipe:
    """unidirectional byte pipe"""

    def __init__(self, world: World, name: str, capacity: int | None = None) -> None:
        self.w = world
        self.name = name
        self.buf = bytearray()
        self.wclosed = False
        self.rclosed = False
        self.total = 0  # bytes ever written
        self.cut_at: int | None = None  # writer process dies after this many bytes
        self.capacity = capacity
        self.record: bytearray | None = None  # full stream log when not None
        self.wproc: VProc | None = None
        self.rproc: VProc | None = None
        self.writes: list[int] = []  # sizes of write calls
        world.objs.append(self)
        self.r = VPipeReader(self)
        self.w_end = VPipeWriter(self)

    def _fp(self):
        return ("P", len(self.buf), self.wclosed, self.rclosed)


class _RawWriter:
    """the unbuffered stream under a BufferedWriter: a write may be short (at most one
    pipe buffer per call, as with non-blocking / green streams or an interrupting signal)"""

    PIPE_BUF = 65536

    def __init__(self, w: "VPipeWriter") -> None:
        self._w = w

    def write(self, data) -> int:
        data = bytes(data)
        n = min(len(data), self.PIPE_BUF)
        self._w.write(data[:n])
        return n

    def flush(self) -> None:
        return None

    def fileno(self) -> int:
        return self._w.fileno()

    def close(self) -> None:
        self._w.close()

    @property
    def closed(self) -> bool:
        return self._w.closed


class VPipeWriter:
    """behaves like the BufferedWriter of a subprocess pipe: write() takes everything"""

    def __init__(self, pipe: VPipe) -> None:
        self.pipe = pipe
        self.closed = False
        self.unflushed = False
        self.raw = _RawWriter(self)

    def _proc_close(self) -> None:
        self.closed = True
        self.pipe.wclosed = True

    def fileno(self) -> int:
        return 1000 + id(self.pipe) % 1000

    def write(self, data) -> int:
        p = self.pipe
        w = p.w
        if self.closed:
            raise ValueError("write to closed file")
        data = bytes(data)
        cap = p.capacity
        if cap is None:
            w.point("pw:" + p.name, xproc=True)
        else:
            w.point("pw:" + p.name, lambda: p.rclosed or len(p.buf) < cap, xproc=True)
        if self.closed:
            raise ValueError("write to closed file")
        if p.rclosed:
            # like BufferedWriter: the data that could not be flushed stays in the buffer,
            # so a later close() fails again
            self.unflushed = True
            raise BrokenPipeError(32, "Broken pipe")
        if p.cut_at is not None and p.total + len(data) >= p.cut_at:
            keep = p.cut_at - p.total
            part = data[:keep]
            p.buf += part
            p.total += len(part)
            if p.record is not None:
                p.record += part
            p.cut_at = None
            w.log("cut", p.name, p.total)
            proc = p.wproc
            assert proc is not None
            proc.die(-9, "cut")
            raise InternalError("cut: writer thread not in dying process")
        p.buf += data
        p.total += len(data)
        p.writes.append(len(data))
        if p.record is not None:
            p.record += data
        return len(data)

    def flush(self) -> None:
        if self.closed:
            raise ValueError("flush of closed file")

    def close(self) -> None:
        if self.closed:
            return
        self.pipe.w.point("pclose-w:" + self.pipe.name, xproc=True)
        self.closed = True
        self.pipe.wclosed = True
        if self.unflushed and self.pipe.rclosed:
            # BufferedWriter.close() flushes first; the descriptor is closed anyway
            raise BrokenPipeError(32, "Broken pipe")


class VPipeReader:
    def __init__(self, pipe: VPipe) -> None:
        self.pipe = pipe
        self.closed = False
        self.raw = self  # reads are "whatever is available" already

    def _proc_close(self) -> None:
        self.closed = True
        self.pipe.rclosed = True

    def fileno(self) -> int:
        return 2000 + id(self.pipe) % 1000

    def read(self, n: int = -1) -> bytes:
        p = self.pipe
        w = p.w
        if self.closed:
            raise ValueError("read of closed file")
        if n == 0:
            return b""
        w.point("pr:" + p.name, lambda: bool(p.buf) or p.wclosed or self.closed, xproc=True)
        if self.closed:
            raise ValueError("read of closed file")
        if not p.buf:
            return b""
        avail = len(p.buf)
        if n is None or n < 0:
            # read to EOF
            while not p.wclosed:
                w.point("pr:" + p.name, lambda: p.wclosed, xproc=True)
            k = len(p.buf)
        else:
            k = min(n, avail)
            if k > 1 and w.short_reads:
                c = w.env_choice(3 if k > 2 else 2, "short-read:" + p.name)
                if c == 1:
                    k = 1
                elif c == 2:
                    k = k - 1
        out = bytes(p.buf[:k])
        del p.buf[:k]
        return out

    def readline(self) -> bytes:
        p = self.pipe
        w = p.w
        if self.closed:
            raise ValueError("read of closed file")
        w.point("prl:" + p.name, lambda: (b"\n" in p.buf) or p.wclosed, xproc=True)
        i = p.buf.find(b"\n")
        k = len(p.buf) if i < 0 else i + 1
        out = bytes(p.buf[:k])
        del p.buf[:k]
        return out

    def close(self) -> None:
        if self.closed:
            return
        self.pipe.w.point("pclose-r:" + self.pipe.name, xproc=True)
        self.closed = True
        self.pipe.rclosed = True


# ----------------------------------------------------------------------
# virtual subprocess module
# ----------------------------------------------------------------------
_BOOT_EM = re.compile(r"get_execmodel\((['\"])([A-Za-z_]+)\1\)")
_BOOT_ID = re.compile(r"serve\([^\n]*id=(['\"])([^'\"\n]*)\1\)")

_EVAL_CACHE: dict[bytes, str] = {}


def _child_main(proc: VProc, stdin: VPipeReader, stdout: VPipeWriter, args) -> None:
    """plays `python -u -c "import sys;exec(eval(sys.stdin.readline()))"`"""
    import execnet.gateway_base as gb

    w = proc.world
    if "-c" not in args or "exec(eval(sys.stdin.readline()))" not in args[args.index("-c") + 1]:
        raise InternalError(f"virtual Popen: unexpected argv {args!r}")
    line = stdin.readline()
    if not line:
        return
    src = _EVAL_CACHE.get(line)
    if src is None:
        src = eval(line.decode("utf-8"))  # the repr()'d bootstrap source
        _EVAL_CACHE[line] = src
    tail = src[-400:]
    ems = _BOOT_EM.findall(tail)
    ids = _BOOT_ID.findall(tail)
    if not ems or not ids:
        raise InternalError("virtual Popen: unexpected bootstrap trailer: " + tail)
    backend = ems[-1][1]
    wid = ids[-1][1]
    proc.execmodel = em = VExecModel(w, proc, backend)
    proc.bootstrap = "import" if "from execnet.gateway_base import" in tail else "exec"
    io = gb.Popen2IO(stdout, stdin, em)
    io.write(b"1")
    hook = w.opts.get("child_hook")
    if hook is not None:
        hook(proc)
    gb.serve(io, id=wid)


class VPopen:
    def __init__(self, parent: VProc, args, stdin=None, stdout=None, **kw) -> None:
        w = parent.world
        self.args = list(args)
        n = len(w.procs)
        w.point("popen", xproc=True)
        self.proc = proc = VProc(w, f"child{n}")
        proc.parent = parent
        pin = VPipe(w, f"p{n}.in")  # parent -> child
        pout = VPipe(w, f"p{n}.out")  # child -> parent
        pin.wproc, pin.rproc = parent, proc
        pout.wproc, pout.rproc = proc, parent
        proc.pin, proc.pout = pin, pout
        hook = w.opts.get("popen_hook")
        if hook is not None:
            hook(proc)
        # bufsize=0 gives the caller the raw (unbuffered) stream: its write() may be short
        self.stdin = pin.w_end.raw if kw.get("bufsize", -1) == 0 else pin.w_end
        self.stdout = pout.r
        parent.fds += [pin.w_end, pout.r]
        proc.fds += [pin.r, pout.w_end]
        self.pid = proc.pid
        self.returncode: int | None = None
        w.children.append(self)
        w.spawn(
            _child_main,
            (proc, pin.r, pout.w_end, self.args),
            proc=proc,
            name=f"main@{proc.name}",
            role="service",
            is_main=True,
        )

    def poll(self):
        if not self.proc.alive:
            self.returncode = self.proc.exitcode
        return self.returncode

    def wait(self, timeout=None):
        w = self.proc.world
        ok = w.point("waitpid:" + self.proc.name, lambda: not self.proc.alive, timeout, xproc=True)
        if not ok:
            raise TimeoutError("wait timed out")
        self.returncode = self.proc.exitcode
        return self.returncode

    def kill(self) -> None:
        w = self.proc.world
        w.point("kill:" + self.proc.name, xproc=True)
        if self.proc.alive:
            self.proc.die(-9, "killed")

    terminate = kill


def _make_subprocess_module(world: World, proc: VProc) -> types.SimpleNamespace:
    class Popen(VPopen):
        def __init__(self, args, **kw) -> None:
            VPopen.__init__(self, proc, args, **kw)

    return types.SimpleNamespace(Popen=Popen, PIPE=-1)


# ----------------------------------------------------------------------
# exec model
# ----------------------------------------------------------------------
def _get_execmodel_base():
    instrument.install()
    import execnet.gateway_base as gb

    return gb.ExecModel


_VEM_CLASS = None


def VExecModel(world: World, proc: VProc, backend: str = "thread"):
    global _VEM_CLASS
    if _VEM_CLASS is None:
        base = _get_execmodel_base()

        class _VExecModel(base):  # type: ignore[misc, valid-type]
            def __init__(self, world: World, proc: VProc, backend: str) -> None:
                self.world = world
                self.proc = proc
                self._backend = backend
                self._queue = _make_queue_module(world)
                self._subprocess = _make_subprocess_module(world, proc)
                self._socket = None

            @property
            def backend(self):
                return self._backend

            @property
            def queue(self):
                return self._queue

            @property
            def subprocess(self):
                return self._subprocess

            @property
            def socket(self):
                if self._socket is None:
                    from . import vsocket

                    self._socket = vsocket.make_socket_module(self.world, self.proc)
                return self._socket

            def start(self, func, args=()) -> None:
                w = self.world
                w.point("start")
                sf = w.opts.get("start_faults")
                if sf and (sf is True or sf is self.proc) and w.env_choice(2, "start-fails") == 1:
                    # environment fault: the OS / the interpreter refuses another thread
                    w.log("start-fails", getattr(func, "__name__", "t"))
                    raise RuntimeError("can't start new thread")
                w.spawn(func, args, proc=self.proc, name=getattr(func, "__name__", "t"))

            def start_nondaemon(self, func, args=()) -> None:
                """harness-only: what threading.Thread(target=...).start() is for remote code"""
                w = self.world
                w.point("start")
                t = w.spawn(func, args, proc=self.proc, name="nondaemon-" + getattr(func, "__name__", "t"))
                t.nondaemon = True

            def get_ident(self) -> int:
                me = self.world.cur
                return me.tid if me is not None else -1

            def sleep(self, delay: float) -> None:
                self.world.point("sleep", lambda: False, max(delay, 1e-9))

            def fdopen(self, fd, mode, bufsize=1, closefd=True):
                raise InternalError("fdopen is not available in the virtual world")

            def Lock(self):
                return VLock(self.world, "lock")

            def RLock(self):
                return VLock(self.world, "rlock")

            def Event(self):
                return VEvent(self.world)

        _VEM_CLASS = _VExecModel
    return _VEM_CLASS(world, proc, backend)


# ----------------------------------------------------------------------
# process-wide os dispatchers
# ----------------------------------------------------------------------
_real_kill = os.kill
_real_getpid = os.getpid
_real_exit = os._exit


def _v_getpid() -> int:
    t = current_thread()
    if t is None:
        return _real_getpid()
    return t.proc.pid


def _v_kill(pid: int, sig: int) -> None:
    t = current_thread()
    if t is None:
        return _real_kill(pid, sig)
    w = t.world
    for p in w.procs:
        if p.pid == pid:
            break
    else:
        raise ProcessLookupError(3, "No such process")
    w.point(f"os.kill:{sig}", xproc=True)
    signal_proc(p, sig)


def signal_proc(p: VProc, sig: int) -> None:
    w = p.world
    if not p.alive:
        return
    if sig == 2:
        p.sigints += 1
        w.log("sigint", p.name)
        if p.ignore_sigint:
            return
        m = p.main
        if m is not None and m.state != DONE:
            m.pending = KeyboardInterrupt()
    elif sig == 9:
        p.die(-9, "killed")
    elif sig == 19:
        p.stopped = True
    elif sig == 18:
        p.stopped = False
    else:
        raise InternalError(f"signal {sig} not modelled")


def _v_exit(code: int = 0):
    t = current_thread()
    if t is None:
        return _real_exit(code)
    t.world.log("os._exit", t.proc.name, code)
    t.proc.die(code, "os._exit")
    raise ProcExit()


def install_os_dispatch() -> None:
    os.kill = _v_kill
    os.getpid = _v_getpid
    os._exit = _v_exit


def rebind_module_globals(world: World) -> None:
    """rebind the few real primitives execnet uses outside the ExecModel seam (F1)"""
    import execnet.multi as multi
    import execnet.rsync as rsync

    multi.Lock = lambda: VLock(world, "grouplock", reentrant=False)  # type: ignore[assignment]
    multi.atexit = types.SimpleNamespace(register=lambda *a, **k: None)  # type: ignore[attr-defined]
    rsync.Queue = lambda: VQueue(world)  # type: ignore[assignment]


def setup() -> None:
    instrument.install()
    install_os_dispatch()
    from . import vsocket

    vsocket.install_compile_cache()
    _quiet_late_warnings()


def _quiet_late_warnings() -> None:
    """channels of a finished world are finalised later (gc is off during an execution); their
    "unhandled RemoteError" warnings belong to that world's stderr, not to the check's output"""
    from execnet import gateway_base as gb

    if getattr(gb.RemoteError.warn, "_vp", False):
        return
    orig = gb.RemoteError.warn

    def warn(self):
        if _CUR_WORLD[0] is None:
            return
        orig(self)

    warn._vp = True  # type: ignore[attr-defined]
    gb.RemoteError.warn = warn  # type: ignore[method-assign]
