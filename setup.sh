#!/bin/sh
# offline setup: nothing to build; verify the interpreter and run the engine selftest
cd "$(dirname "$0")" || exit 2
/venv/bin/python -c "import greenlet, sys; assert sys.version_info[:2] == (3, 12)" || exit 2
mkdir -p evidence replays
exec /venv/bin/python -u -m selftest.run
